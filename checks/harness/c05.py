"""C05 — CSV import reproduces the file's records exactly, independent of chunking.

Correspondence (three levels, all against the Lean model Exetera/Model/Csv.lean):
  csv_kernel  exetera.core.csv_reader_speedup.fast_csv_reader               vs  Csv.fastCsvReader   (every output incl. both arrays)
  csv_driver  exetera.core.csv_reader_speedup.read_file_using_fast_csv_reader vs  Csv.readFile       (recording importers)
  csv_import  exetera.io.parsers.read_csv_with_schema_dict into an HDF5 frame  vs  Csv.readCsv        (destination fields)
  csv_typed   the same entry point (or parsers.read_csv with a JSON schema) with schema-typed columns (categorical, leaky,
              fixed, bool/int/float in three modes, datetime, date) and small chunk_row_size   vs  Csv.readCsv driving the
              importer models of Model/Transforms.lean, one import_part per kernel call (main fields and _valid, _freetext,
              _day, _set companions); oracle = checks/harness/c06.py's rendering of Spec/Transforms on the reference cells
Oracle for the property itself: `parse_ref` below, the Python rendering of Spec/Csv.lean (RFC-4180 records; blanks that
directly follow a separator or a line break are skipped), cross-checked at generation time against the cell grammar
(`value`) and Python's csv module."""
import csv
import io
import itertools
import os
import re
import sys

PROPERTY = "C05"
LEVEL = "proof"
LEAN_MODULES = ["Exetera.Props.C05", "Exetera.Props.C0506"]
THEOREMS = []
EXHAUSTIVE = {"quick": True, "thorough": True}
CASE_TIMEOUT = 60
MODES = {"quick": ["jit", "nojit"], "thorough": ["jit", "nojit", "bounds"], "search": ["jit", "nojit"]}
RULE = ("files are rendered from a cell grammar {empty, plain, leading/trailing blank, blank only, quoted separator, quoted "
        "doubled quote, quoted newline, quoted blank, needlessly quoted, multi-byte UTF-8} with or without a final newline. "
        "Exhaustive (seed independent): all files of <=2 columns x <=2 rows over 7 cell kinds (quick: every 3rd case of the "
        "2x2 shape; thorough: all, plus every 2nd file of 2x3 and 3x2 over 5 kinds) x every chunk_row_size from the smallest supported one upwards (window = 2*crs*columns bytes; includes boundaries "
        "inside quoted cells, between the two quotes of an escaped quote and exactly at record ends) x per-column value budgets "
        "{1, 2, ample}; all-empty-cell files (index buffer fills before the window ends); kernel-level: every byte string over "
        "{x , \" \\n blank} up to length 6 (quick) / 7 (thorough) with and without header, entry at every offset. Seeded random: "
        "files up to 300 rows (quick) / 5000 rows (thorough) with random chunk_row_size, budgets, include/exclude lists, fixed "
        "and indexed string columns through the public read_csv path. Regrowth ladders (seed independent): one cell of 1, 2, 4, 8 "
        "(+-1) value budgets (budget 1, 2, 3) - bare, quoted, quoted with the doubled quote on the byte that fills the budget - in "
        "the first / middle / last of three records, 1-2 columns, smallest supported chunk_row_size, the next one and one window; "
        "files whose first windows are filled by records of empty cells (index buffer full) followed by a long cell (both buffers "
        "grow in one run). Typed columns (csv_typed): 240 (quick) / 6000 (thorough) seeded mixed schemas over 9 column kinds x 3 "
        "validation modes, 1-4 columns, 0-90 rows, cells quoted / blank-led at random, chunk_row_size = smallest supported, +1, "
        "+0..30 or one window, include/exclude lists, columns missing from the schema, schema given as importer-definition "
        "dictionary or as JSON schema file, 80% of the cases with acceptable cells only; plus a seed-independent family in which "
        "windows of empty records fill the index buffer before a long typed cell doubles its value budget; plus the stratified "
        "rejected-cell family (typed_reject_cases, seed independent): a typed column beside a one-byte fixed-string column whose "
        "long cell in row 3 forces a regrowth, a cell of class {empty, unparseable, out of dtype range, impossible date} in every "
        "row 0..5 in turn x {bool, int8, uint16, float64} x {strict, allow_empty, relaxed} and datetime / date x chunk_row_size "
        "{smallest supported, +1, (+3 thorough), one window} - every rejecting combination is measured in the three strata first "
        "row of the file / last row of a kernel block / first row after a regrowth (reject-stratum:* in the distribution), the "
        "accepting combinations must import with the flag cleared - and two-column files with two rejected cells of different "
        "exception classes, earlier row in the later column, both column orders, smallest chunk_row_size and one window. The driver op also compares the full flag of every kernel call. Non-trivial = the model made more than one kernel call, "
        "or the file has a quoted cell or a blank-led cell; distinct = distinct case line.")
ASSUMPTIONS = [
    "supported regime of the property: every record (and the header line) fits in the byte window 2*chunk_row_size*columns; "
    "outside it the (fixed) reader raises ValueError, which the check records as observation D6 and does not count",
    "csv.DictReader returns the header names the generator wrote (plain ASCII names); np.fromfile(count, offset) returns "
    "file[offset:offset+count]",
    "h5py/HDF5 store what write_part appended (C01); fixed-string cells contain no NUL byte",
    "hand-written Lean model validated by this differential run, not verified against the Python text",
]
TRUSTED = ["Lean 4.33 kernel", "axioms: propext, Classical.choice, Quot.sound only (audited per theorem)",
           "checks/harness/c05.py generators, reference parser and comparison",
           "Lean model Exetera/Model/Csv.lean mirrors csv_reader_speedup.py / field_importers.py / parsers.py by hand",
           "tools/translate_csv.py (byte constants, window factor, regrowth factor, indexed-string field size)"]
LEVEL_TEXT = ("Kernel-checked theorems, for all well-formed files of any size, about the executable model of fast_csv_reader / "
              "read_file_using_fast_csv_reader / IndexedStringImporter / read_csv_with_schema_dict: (1) one kernel call on any window "
              "of the supported regime (complete records followed by any prefix of the next record, entered at any record boundary) "
              "with ANY staging buffers (every value budget >= 1 byte, >= 1 index row, stale contents) touches no memory outside its "
              "arrays, terminates, reports exactly the first a complete records and resumes behind them, and ends in one of three "
              "ways: no flag (a = all complete records), indices full (a = index rows), values full in column j (budget of j <= bytes "
              "of column j in the first a+1 records); (2) the whole driver loop, for every chunk_row_size in the supported regime, "
              "every starting budgets >= 1, any number of windows and any number of index-buffer / value-buffer regrowths "
              "(re-entry inside the held window with doubled buffers), yields exactly the reference records column by column within "
              "records + 2 + regrowthBound kernel calls (regrowthBound = sum of log2-many doublings per buffer) - so the result "
              "depends neither on chunk_row_size nor on how the buffers had to grow; the same for read_csv_with_schema_dict with the "
              "budgets it computes; (3) include/exclude select exactly the named columns; (4) composition with C06 "
              "(Props/C0506.lean): the driver invariant and loop are proved for ANY family of importers that are append "
              "homomorphisms over cell blocks (ImpHom); every importer kind of C06 is one (importer_append_homomorphism: indexed, "
              "fixed, categorical, leaky categorical with its free-text offsets, bool/int/float in the three validation modes "
              "with the validity flag, datetime/date with day and set companions), so for ANY schema of such kinds, every "
              "chunk_row_size of the regime and every regrowth the public entry point returns, for every selected column, C06's "
              "specification applied to the WHOLE column of cell texts (read_csv_typed_eq_spec: typed import = C06.spec o "
              "C05.spec), every companion with exactly one entry per record (typed_companions_aligned), provided no selected "
              "cell is rejected by its importer's validation mode; (5) if some selected cell IS rejected, the public entry "
              "point raises for every chunk_row_size of the regime, every starting budgets >= 1 and the same fuel "
              "(read_csv_typed_raises, read_file_typed_raises; typed_raise_chunk_size_unobservable: two chunk sizes both "
              "succeed with equal output or both raise), and the error is what the importer raises on the first rejected "
              "cell - index_map order, then row order - of the first kernel block that holds one (Reported), of the class "
              "typed_reject_error_class gives per importer kind.")
LEVEL_NOTE = ("window_chunking_unobservable, regrowth_unobservable, chunk_size_unobservable and read_csv_eq_spec are proved at full "
              "strength (hypotheses: well-formed RFC-4180 table with a header line, chunk_row_size > 0, every line fits the byte window "
              "2*chunk_row_size*columns; for the driver-level theorems additionally every starting value budget >= 1, which "
              "read_csv_with_schema_dict guarantees since fix NC05b; read_csv_eq_spec is about columns imported as text - typed "
              "conversion is C06). The earlier _partial forms (two no-regrowth hypotheses, call bound records + 2) are kept as "
              "obligations. Termination is by the measure (lines behind the window start) + (doublings until the index buffer exceeds "
              "the record count) + sum over columns (doublings until the budget exceeds the column's bytes). The correspondence run "
              "additionally compares, per kernel call of the driver, the full flag returned by the real fast_csv_reader with the "
              "model's (regrowth path), and measures regrowth coverage (regrow-* tags). In the supported regime the index buffer can "
              "fill at most once per import (a window holds at most 2*chunk_row_size records). The model mirrors the code with fix "
              "patches D26, NC05a, NC05b, D27 applied. Typed columns: read_csv_typed_eq_spec assumes C06's own hypotheses on the "
              "importer definitions (distinct category keys; the number parser rejects blank text and converts str(invalid_value) "
              "to invalid_value; parsers are data: modelled int() with a dtype range, or a finite text->value table for floats) "
              "and that every selected cell is acceptable to its importer (cellOK, decided per cell). When a cell is rejected "
              "read_csv_typed_raises holds at the public entry point (the importer-level read_csv_typed_raises_partial is "
              "kept): the driver invariant DI extended by 'no rejected cell consumed so far' (DIC, Lemmas/CsvRaise.lean), "
              "one iteration split at the importers into ok- and error-continuation (driver_step_split), importers that "
              "reject (ImpRej: import_part on a block returns rejErr of the block's first rejected cell). Whether the "
              "import raises does not depend on chunk boundaries; which of several rejected cells is reported does (first "
              "kernel block, then index_map order, then row order) - hence also the exception class when the rejected "
              "cells differ in class (example in Props/C0506.lean). The correspondence compares the error class of model "
              "and code AND the reported column / cell text with the prediction 'first rejected cell of the first block' "
              "computed from the model's kernel-block trace, on every csv_typed case that raises. To state the composition "
              "the kernel lemma now also exports that the reported entries stay strictly inside each column's value budget "
              "(KernelRes.caps), which is what the leaky importer's free-text staging array of that size needs.")
TECHNIQUE = "Lean 4 theorems over an executable model + differential correspondence with the real code"
EXPLANATION = ""

Q, SEPB, NLB, WSB = 34, 44, 10, 32

# ------------------------------------------------------------------------------------------------------------------
# cell grammar, rendering, reference parser (Python rendering of Spec/Csv.lean)
# ------------------------------------------------------------------------------------------------------------------
# a cell is (quoted, text)
KINDS = {
    "empty": (False, b""),
    "plain": (False, b"ab"),
    "lead": (False, b" a"),
    "blank": (False, b"  "),
    "trail": (False, b"a "),
    "qsep": (True, b"a,b"),
    "qquote": (True, b'a"b'),
    "qnl": (True, b"a\nb"),
    "qblank": (True, b" a"),
    "qplain": (True, b"a"),
    "qempty": (True, b""),
    "qq": (True, b'"'),
    "utf8": (False, "é".encode()),
    "long": (False, b"abcdefghijklmnopqrstuvwxyz"),
    "qlong": (True, b'ab,"cd"\n ef,gh'),
}
K7 = ["empty", "plain", "lead", "qsep", "qquote", "qnl", "utf8"]
K5 = ["empty", "lead", "qquote", "qnl", "plain"]


def render_cell(c):
    q, t = c
    return b'"' + t.replace(b'"', b'""') + b'"' if q else t


def render_row(cells):
    return b",".join(render_cell(c) for c in cells) + b"\n"


def render(header, rows, final_nl=True):
    out = b",".join(header) + b"\n" + b"".join(render_row(r) for r in rows)
    return out if final_nl else out[:-1]


def value(c):
    q, t = c
    return t if q else t.lstrip(b" ")


def parse_ref(data):
    """reference parser: list of records, each a list of cell byte strings. RFC-4180 quoting; a record ends at an unquoted
    newline; a missing final newline is supplied; blanks directly after a separator / line break / file start are skipped.
    Returns None for text that is not well formed (quote inside an unquoted cell, junk after a closing quote, open quote)."""
    if not data:
        return []
    if data[-1:] != b"\n":
        data += b"\n"
    recs, rec, i, n = [], [], 0, len(data)
    while i < n:
        while i < n and data[i] == WSB:
            i += 1
        if i < n and data[i] == Q:
            i += 1
            cell = bytearray()
            while True:
                if i >= n:
                    return None
                if data[i] == Q:
                    if i + 1 < n and data[i + 1] == Q:
                        cell.append(Q)
                        i += 2
                        continue
                    i += 1
                    break
                cell.append(data[i])
                i += 1
            if i >= n or data[i] not in (SEPB, NLB):
                return None
        else:
            cell = bytearray()
            while i < n and data[i] not in (SEPB, NLB):
                if data[i] == Q:
                    return None
                cell.append(data[i])
                i += 1
            if i >= n:
                return None
        rec.append(bytes(cell))
        if data[i] == NLB:
            recs.append(rec)
            rec = []
        i += 1
    return recs


def line_spans(data):
    """[(start, end_exclusive incl. newline or EOF)] of the records of well-formed text (quote aware)"""
    spans, i, n, start, inq = [], 0, len(data), 0, False
    while i < n:
        b = data[i]
        if inq:
            if b == Q:
                if i + 1 < n and data[i + 1] == Q:
                    i += 1
                else:
                    inq = False
        elif b == Q:
            inq = True
        elif b == NLB:
            spans.append((start, i + 1))
            start = i + 1
        i += 1
    if start < n:
        spans.append((start, n))
    return spans


def supported(data, crs, ncols):
    """the property's regime: every window (2*crs*ncols bytes) that starts at a record start holds that record completely
    (a record without the final newline only needs its own bytes to fit: the reader appends the newline itself)"""
    w = 2 * crs * ncols
    return all(b - a <= w for a, b in line_spans(data))


def min_crs(data, ncols):
    c = 1
    while not supported(data, c, ncols):
        c += 1
    return c


# ------------------------------------------------------------------------------------------------------------------
# case construction
# ------------------------------------------------------------------------------------------------------------------
NAMES = [b"a", b"bb", b"c", b"dd", b"e"]


def mk_driver(data, ncols, crs, budgets, index_map=None, why=None):
    offs = [0]
    for b in budgets:
        offs.append(offs[-1] + b)
    c = {"op": "csv_driver", "file": list(data), "crs": crs, "ncols": ncols, "offs": offs,
         "index_map": list(range(ncols)) if index_map is None else index_map, "fuel": 64 + 4 * len(data)}
    if why:
        c["_why"] = why
    return c


def mk_import(data, names, kinds, crs, include=None, exclude=None, schema_names=None, why=None):
    """kinds: per file column 'i' (indexed), 'n' (Numeric int32, digit cells only) or an int (fixed length)"""
    sn = names if schema_names is None else schema_names
    schema = []
    for nme, k in zip(names, kinds):
        if nme in sn:
            schema.append({"name": nme, "kind": "indexed"} if k == "i" else
                          ({"name": nme, "kind": "int"} if k == "n" else {"name": nme, "kind": "fixed", "n": k}))
    c = {"op": "csv_import", "file": list(data), "names": names, "schema": schema, "crs": crs,
         "include": include, "exclude": exclude, "fuel": 64 + 4 * len(data)}
    if why:
        c["_why"] = why
    return c


def mk_kernel(src, start, ncols, maxrow, budgets, has_header, inds=None, unsafe=False):
    offs = [0]
    for b in budgets:
        offs.append(offs[-1] + b)
    c = {"op": "csv_kernel", "src": list(src), "start": start,
         "inds": inds if inds is not None else [[0] * (maxrow + 1) for _ in range(ncols)],
         "vals": [0] * offs[-1], "offs": offs, "has_header": has_header}
    if unsafe:
        c["_jit_unsafe"] = True
    return c


def jit_unsafe(src, ncols):
    """conservative: some record may hold more cells than columns (the compiled kernel then indexes out of bounds, which
    is undefined behaviour without bounds checking). A quote may join lines, so with a quote present all separators count."""
    b = bytes(src)
    if b'"' in b:
        return b.count(b",") >= ncols
    return any(line.count(b",") >= ncols for line in b.split(b"\n"))


def files_exhaustive(kinds, max_cols, max_rows):
    for ncols in range(1, max_cols + 1):
        header = NAMES[:ncols]
        for nrows in range(0, max_rows + 1):
            for combo in itertools.product(kinds, repeat=ncols * nrows):
                rows = [[KINDS[k] for k in combo[r * ncols:(r + 1) * ncols]] for r in range(nrows)]
                yield header, rows


def selfcheck(header, rows, data):
    exp = [[value(c) for c in r] for r in rows]
    got = parse_ref(data)
    assert got is not None and got[0] == [h.lstrip(b" ") for h in header] and got[1:] == exp, (data, got, exp)


def gen_cases(tier, rng):
    from checks import corpus
    cases = list(corpus.load("C05"))
    quick = tier == "quick"
    # ---- 1. exhaustive small files through the driver: every supported crs near the boundary, tiny and ample budgets
    #         (kinds, max columns, max rows, keep every n-th file of the largest shape, all crs between lo and hi?)
    scopes = [(K7, 2, 2, 1, False)] if quick else [(K7, 2, 2, 1, True), (K5, 2, 3, 2, False), (K5, 3, 2, 2, False)]
    n = 0
    seen_files = set()
    for kinds, mc, mr, step, allcrs in scopes:
        fcount = 0
        for header, rows in files_exhaustive(kinds, mc, mr):
            ncols = len(header)
            fcount += 1
            if step > 1 and ncols * len(rows) == mc * mr and fcount % step:
                continue
            for final_nl in (True, False):
                if not final_nl and rows and render_row(rows[-1]) == b"\n":
                    continue        # would be a different file (the empty last record disappears)
                data = render(header, rows, final_nl)
                if data in seen_files:
                    continue
                seen_files.add(data)
                selfcheck(header, rows, data)
                lo = min_crs(data, ncols)
                hi = max(lo, (len(data) + 2 * ncols - 1) // (2 * ncols))     # first crs that reads the file in one window
                css = sorted(set([lo, lo + 1, (lo + hi) // 2, hi, hi + 1]))
                if allcrs or ncols * len(rows) <= 2:
                    css = sorted(set(css) | set(range(lo, hi + 2)))
                for crs in css:
                    for bud in ([1] * ncols, [2] * ncols, [64] * ncols):
                        n += 1
                        if quick and ncols * len(rows) == 4 and (n % 3 != 0):
                            continue
                        cases.append(mk_driver(data, ncols, crs, bud))
                if lo > 1:
                    cases.append(mk_driver(data, ncols, lo - 1, [64] * ncols, why="one below the supported regime (D6)"))
    # ---- 2. all-empty-cell files: the index buffer fills before / exactly at the window end (NC05a symptom 3)
    for ncols in (1, 2, 3):
        for nrows in range(0, 10 if quick else 20):
            for tail in ([], [KINDS["qplain"]], [KINDS["lead"]]):
                rows = [[KINDS["empty"]] * ncols for _ in range(nrows)] + ([tail * ncols] if tail else [])
                data = render(NAMES[:ncols], rows)
                for crs in (1, 2, 3):
                    if supported(data, crs, ncols):
                        cases.append(mk_driver(data, ncols, crs, [1] * ncols))
    # ---- 2b. regrowth ladders: a cell of 1, 2, 4, 8 (+-1) budgets -> 1, 2, 3, 4 value-buffer doublings without a completed
    #          record in between; bare, quoted, quoted with the doubled quote on the byte that fills the budget; in the first,
    #          a middle or the last record; also behind records of empty cells that fill the index buffer first
    cases.extend(regrowth_cases(quick))
    # ---- 3. the public path: read_csv_with_schema_dict into HDF5 (indexed and fixed columns, include / exclude)
    cases.extend(import_cases(rng, 150 if quick else 3000))
    # ---- 3b. the public path with schema-typed columns (C05 o C06): small chunk_row_size, typed columns cross many kernel
    #          calls and regrowths; compared with the composed model and with both oracles
    cases.extend(typed_regrowth_cases())
    cases.extend(typed_reject_cases(quick))
    cases.extend(typed_cases(rng, 240 if quick else 6000))
    # ---- 4. kernel level: every byte string over a 5-letter alphabet, header or not, ample and tiny budgets
    alpha = [ord("x"), SEPB, Q, NLB, WSB]
    maxlen = 6 if quick else 7
    k = 0
    for ln in range(0, maxlen + 1):
        for s in itertools.product(alpha, repeat=ln):
            k += 1
            if quick and ln == maxlen and k % 2:
                continue
            hh = (k % 3 == 0)
            bud = [[8, 8, 8], [1, 2, 1], [2, 1, 3]][k % 3]
            cases.append(mk_kernel(s, 0, 3, 2 if k % 2 else 3, bud, hh, unsafe=jit_unsafe(s, 3)))
    # ---- 5. kernel level: entry at every offset of well-formed windows, truncated at every length, stale index buffers
    for t in range(60 if quick else 600):
        ncols = rng.choice([1, 2, 3])
        rows = [[KINDS[rng.choice(list(KINDS))] for _ in range(ncols)] for _ in range(rng.randrange(0, 4))]
        data = render(NAMES[:ncols], rows)
        spans = line_spans(data)
        for (a, _) in spans:
            cut = rng.randrange(a, len(data) + 1)
            maxrow = rng.choice([1, 2, 4])
            inds = [[0] + [rng.randrange(0, 3) for _ in range(maxrow)] for _ in range(ncols)]
            cases.append(mk_kernel(data[:cut], a, ncols, maxrow, [rng.choice([1, 3, 40]) for _ in range(ncols)],
                                   a == 0, inds=inds))
    # ---- 6. seeded random files through the driver
    for t in range(400 if quick else 12000):
        cases.append(random_driver_case(rng, big=(t % 50 == 0), huge=(not quick and t % 3000 == 7)))
    return cases


def regrowth_cases(quick):
    out = []
    seen = set()
    for b in (1, 2, 3):
        for mult in (1, 2, 4, 8):
            for delta in (-1, 0, 1):
                ln = b * mult + delta
                if ln < 1:
                    continue
                texts = [(False, b"x" * ln), (True, b"y" * ln), (True, b"y" * (ln - 1) + b'"'), (True, b'"' * ln),
                         (True, (b"z,\n" * ln)[:ln])]
                for ncols in (1, 2):
                    for pos in (0, 1, 2):
                        for ti, cell in enumerate(texts):
                            if quick and (ti + pos + mult) % 2:
                                continue
                            rows = [[KINDS["plain"] if c == 0 else KINDS["empty"] for c in range(ncols)] for _ in range(3)]
                            rows[pos][ncols - 1] = cell
                            data = render(NAMES[:ncols], rows, final_nl=(pos + ti) % 3 != 0)
                            lo = min_crs(data, ncols)
                            for crs in (lo, lo + 1, max(lo, len(data))):
                                key = (data, crs, b)
                                if key in seen:
                                    continue
                                seen.add(key)
                                out.append(mk_driver(data, ncols, crs, [b] * ncols, why="regrowth ladder"))
    # index buffer full (a window of 2*crs records of empty cells), then a long cell: both buffers grow in one run
    for ncols in (1, 2):
        for crs in (1, 2, 3):
            w = 2 * crs * ncols
            for lead in (0, 1, 2):                    # complete windows of empty records in front
                for ln in (1, 2, 4, 9):
                    if ln + ncols > w:
                        continue
                    hdr_pad = NAMES[:ncols]
                    # pad the header line so that it fills exactly one window: the next windows start at a record start
                    hlen = len(b",".join(hdr_pad)) + 1
                    if hlen > w:
                        continue
                    rows = [[KINDS["empty"]] * ncols for _ in range((lead + 1) * 2 * crs)]
                    rows.append([(False, b"q" * ln)] + [KINDS["empty"]] * (ncols - 1))
                    data = render(hdr_pad, rows)
                    if supported(data, crs, ncols):
                        out.append(mk_driver(data, ncols, crs, [1] * ncols, why="index buffer full, then value buffer ladder"))
    return out


def random_file(rng, ncols, nrows, kinds=None, numcols=()):
    kinds = kinds or list(KINDS)
    weights = rng.choice([None, "plainish"])
    rows = []
    for _ in range(nrows):
        row = []
        for ci in range(ncols):
            if ci in numcols:
                row.append((rng.random() < 0.2, bytes(rng.choice(b"0123456789") for _ in range(rng.randrange(0, 7)))))
            elif weights == "plainish" and rng.random() < 0.7:
                row.append((False, bytes(rng.choice(b"abcxyz019") for _ in range(rng.randrange(0, 6)))))
            elif rng.random() < 0.15:
                txt = bytes(rng.choice(b'ab ,"\n') for _ in range(rng.randrange(0, 9)))
                q = any(ch in txt for ch in b',"\n') or rng.random() < 0.3
                row.append((q, txt))
            else:
                row.append(KINDS[rng.choice(kinds)])
        rows.append(row)
    final_nl = rng.random() < 0.7 or (bool(rows) and render_row(rows[-1]) == b"\n")
    header = NAMES[:ncols]
    data = render(header, rows, final_nl)
    selfcheck(header, rows, data)
    return header, rows, data


def random_driver_case(rng, big=False, huge=False):
    ncols = rng.choice([1, 1, 2, 2, 3, 4])
    nrows = rng.randrange(0, 300) if big else rng.randrange(0, 12)
    if huge:
        nrows = 5000
    header, rows, data = random_file(rng, ncols, nrows)
    lo = min_crs(data, ncols)
    crs = rng.choice([lo, lo, lo + 1, lo + rng.randrange(0, 6), lo + rng.randrange(0, 40), max(lo, len(data))])
    if rng.random() < 0.04 and lo > 1:
        crs = rng.randrange(1, lo)          # outside the regime (D6): model and code must still agree
    budgets = [rng.choice([1, 1, 2, 3, 5, 10 * crs, 1000]) for _ in range(ncols)]
    im = None
    if rng.random() < 0.2:
        im = sorted(rng.sample(range(ncols), rng.randrange(0, ncols + 1)))
    return mk_driver(data, ncols, crs, budgets, im)


def import_cases(rng, n):
    out = []
    for t in range(n):
        ncols = rng.choice([1, 2, 3, 4])
        nrows = rng.randrange(0, 9) if t % 10 else rng.randrange(0, 120)
        kinds = [rng.choice(["i", "i", 1, 2, 5, "n"]) for _ in range(ncols)]
        header, rows, data = random_file(rng, ncols, nrows, numcols=[c for c in range(ncols) if kinds[c] == "n"])
        names = [h.decode() for h in header]
        lo = min_crs(data, ncols)
        crs = rng.choice([lo, lo + 1, lo + rng.randrange(0, 8), 1 << 10])
        # NUL-free, and fixed columns must not see multi-line surprises: any byte is fine for S-dtype except trailing NULs
        include = exclude = None
        r = rng.random()
        if r < 0.25:
            include = rng.sample(names, rng.randrange(0, ncols + 1))
        elif r < 0.5:
            exclude = rng.sample(names, rng.randrange(0, ncols + 1))
        elif r < 0.55:
            include = rng.sample(names, rng.randrange(1, ncols + 1))
            exclude = rng.sample(names, rng.randrange(0, ncols + 1))
        elif r < 0.58:
            include = names[:1] + ["zz"]        # malformed stream: unknown name -> ValueError
        schema_names = names if rng.random() < 0.8 or "n" in kinds else rng.sample(names, rng.randrange(0, ncols + 1))
        out.append(mk_import(data, names, kinds, crs, include, exclude, schema_names))
    return out


# ------------------------------------------------------------------------------------------------------------------
# schema-typed columns through the public entry point (the composition C05 o C06)
# ------------------------------------------------------------------------------------------------------------------
TYPED_KINDS = ["indexed", "categorical", "leaky", "fixed", "bool", "int", "float", "datetime", "date"]


def _c06():
    from checks.harness import c06
    return c06


def typed_col(rng, kind, name, rows, clean, allow_unmatched=None):
    """one column descriptor (the c06 column dict plus 'name') and its cell texts. clean: every cell is acceptable to the
    importer in the column's validation mode (the hypothesis `cellOK` of read_csv_typed_eq_spec)"""
    c6 = _c06()
    col = {"kind": kind, "name": name}
    if allow_unmatched is None:
        # a categorical column without free text refuses a cell that is no category (fix NC06d). C05's own stream holds such
        # cells, in the files that need not be clean, once the finding is no longer listed open; C06's stream always
        allow_unmatched = not clean and not c6.nc06d_open()
    if kind == "indexed":
        cells = [bytes(rng.choice(b"abcxyz 01") for _ in range(rng.choice([0, 1, 2, 3, 5, 12, 40]))).lstrip(b" ") for _ in range(rows)]
    elif kind in ("categorical", "leaky"):
        d = {k: v for k, v in c6.rand_cats(rng, big=rng.random() < 0.15).items() if c6.csv_safe(k) and k == k.strip()}
        if not d:
            d[b"a"] = 1
        keys = list(d)
        cells = []
        for _ in range(rows):
            k = rng.choice(keys)
            r = rng.random()
            if r < 0.6 or (kind == "categorical" and not allow_unmatched):
                cells.append(k)
            elif r < 0.75:
                cells.append(k + rng.choice([b"x", b"xyzxyzxyzxyz", b"q" * 33]))       # free text longer than the budget
            elif r < 0.85:
                cells.append(k[:-1])
            else:
                cells.append(bytes(rng.choice(b"abAB") for _ in range(rng.choice([1, 2, 7, 20]))))
        cells = [c if c6.csv_safe(c) else b"zz" for c in cells]         # (cutting a key may cut a multi-byte character)
        col.update(cats=c6.cats_of(d), vtype=rng.choice(["int8", "int8", "int16", "int32"]))
    elif kind == "fixed":
        cells = [bytes(rng.choice(b"abcz\xc3\xa9") for _ in range(rng.choice([0, 1, 2, 3, 6, 17]))) for _ in range(rows)]
        cells = [c if c6.csv_safe(c) else b"zz" for c in cells]
        col.update(strlen=rng.choice([1, 2, 4, 9]))
    elif kind == "bool":
        mode = rng.choice(["allow_empty", "relaxed", "relaxed", "strict"])
        good = c6.ONES + c6.ZEROS + [b"TRUE", b"No", b"oFF", b"yes "]
        pool = list(good)
        if mode != "strict":
            pool += [b"", b""]
        if mode == "relaxed" or not clean:
            pool += [b"x", b"tru", b"2"]
        if not clean:
            pool += [b""]
        cells = [rng.choice(pool) for _ in range(rows)]
        col.update(mode=mode, invalid=rng.choice([0, 1]))
    elif kind == "int":
        dt = rng.choice(["int8", "uint8", "int16", "uint16", "int32", "uint32", "int64"])
        lo, hi = c6.INT_RANGES[dt]
        mode = rng.choice(["allow_empty", "relaxed", "relaxed", "strict"])
        cells = []
        for _ in range(rows):
            r = rng.random()
            if r < 0.7 or (clean and mode == "strict"):
                cells.append(str(rng.choice([lo, hi, 0, 7, rng.randrange(lo, hi + 1)])).encode() + rng.choice([b"", b"", b" "]))
            elif r < 0.85 or (clean and mode == "allow_empty"):
                cells.append(b"")
            elif clean or r < 0.95:
                cells.append(rng.choice([b"x", b"1.5", b"1e3", b"--1"]))       # relaxed: flagged; otherwise raises
            else:
                cells.append(str(rng.choice([lo - 1, hi + 1])).encode())         # out of range: raises in every mode
        col.update(mode=mode, dtype=dt, invalid=rng.choice([0, "min", "max"]))
    elif kind == "float":
        mode = rng.choice(["allow_empty", "relaxed", "relaxed", "strict"])
        pool = [b"1.5", b"-2", b"1e2", b"0.125", b"nan", b"12345.5", b"-0.25 "]
        if mode != "strict" or not clean:
            pool += [b"", b""]
        if mode == "relaxed" or not clean:
            pool += [b"x", b"1.5x"]
        cells = [rng.choice(pool) for _ in range(rows)]
        col.update(mode=mode, dtype=rng.choice(["float32", "float64"]), invalid=rng.choice([0, 160.5, -1]))
    elif kind == "datetime":
        cells = []
        for _ in range(rows):
            t = c6.rand_ts(rng).strip()
            if clean and c6.ts_expect(t)[0] not in ("ok", "empty"):
                t = rng.choice([b"", b"2020-06-15 19:45:39+01:00"])
            cells.append(t if c6.csv_safe(t) else b"")
        col.update(day=rng.random() < 0.6, flag=rng.random() < 0.6)
    else:
        cells = []
        for _ in range(rows):
            t = c6.rand_date(rng).strip()
            if clean and c6.date_expect(t)[0] not in ("ok", "empty"):
                t = rng.choice([b"", b"2021-03-04"])
            cells.append(t)
        col.update(day=rng.random() < 0.6, flag=rng.random() < 0.6)
    return col, cells


def typed_cases(rng, n, allow_unmatched=None):
    """mixed typed schemas through the REAL read_csv_with_schema_dict (schema dictionary of importer definitions) or
    parsers.read_csv (JSON schema file -> load_schema), with the smallest supported chunk_row_size values: every column
    crosses many kernel calls; categorical budgets are a few bytes per row, so free text forces regrowth"""
    out = []
    for t in range(n):
        ncols = rng.choice([1, 2, 2, 3, 3, 4])
        rows = rng.choice([0, 1, 2, 3, 5, 9, 14]) if t % 12 else rng.randrange(20, 90)
        clean = rng.random() < 0.8
        cols, cellss = [], []
        for ci in range(ncols):
            kind = rng.choice(TYPED_KINDS)
            col, cells = typed_col(rng, kind, NAMES[ci].decode(), rows, clean, allow_unmatched)
            cols.append(col)
            cellss.append(cells)
        # render: a cell may be quoted (exact text), a bare cell may get blanks in front (the reader skips them)
        grid = []
        for r in range(rows):
            row = []
            for ci in range(ncols):
                txt = cellss[ci][r]
                x = rng.random()
                if x < 0.12:
                    row.append((True, txt))
                elif x < 0.2 and not txt.startswith(b" "):
                    row.append((False, b" " * rng.choice([1, 2]) + txt))
                else:
                    row.append((False, txt))
            grid.append(row)
        final_nl = rng.random() < 0.7 or (bool(grid) and render_row(grid[-1]) == b"\n")
        header = NAMES[:ncols]
        data = render(header, grid, final_nl)
        selfcheck(header, grid, data)
        names = [h.decode() for h in header]
        lo = min_crs(data, ncols)
        crs = rng.choice([lo, lo, lo + 1, lo + rng.randrange(0, 5), lo + rng.randrange(0, 30), 1 << 10])
        include = exclude = None
        r = rng.random()
        if r < 0.15:
            include = rng.sample(names, rng.randrange(1, ncols + 1))
        elif r < 0.3:
            exclude = rng.sample(names, rng.randrange(0, ncols))
        # a column left out of the schema is imported as an indexed string
        schema_names = [nm for nm, c in zip(names, cols) if c["kind"] != "indexed" or rng.random() < 0.7]
        via = "json" if (t % 3 == 0 and include is None and exclude is None and len(schema_names) == ncols) else "dict"
        out.append({"op": "csv_typed", "file": list(data), "names": names, "cols": cols, "schema_names": schema_names,
                    "crs": crs, "include": include, "exclude": exclude, "via": via, "fuel": 64 + 6 * len(data), "_n": t,
                    "_clean": clean})
    return out


def typed_regrowth_cases():
    """seed independent: typed columns whose first windows are records of empty cells (the index buffer fills before the byte
    window ends), followed by one long acceptable cell (the value budget of the typed column is doubled several times)"""
    c6 = _c06()
    tail = {"indexed": b"q" * 45, "leaky": b"freetext-" * 6, "fixed": b"abcdefghijkl", "bool": b"  TRUE", "int": b"  12345 ",
            "float": b" 0.125", "datetime": b"2020-06-15 19:45:39.056000+01:00", "date": b"2021-03-04"}
    extra = {"leaky": dict(cats=c6.cats_of({b"": 0, b"a": 1}), vtype="int8"), "fixed": dict(strlen=3),
             "bool": dict(mode="relaxed", invalid=1), "int": dict(mode="allow_empty", dtype="int32", invalid="min"),
             "float": dict(mode="relaxed", dtype="float64", invalid=160.5), "datetime": dict(day=True, flag=True),
             "date": dict(day=True, flag=True), "indexed": {}}
    out, n = [], 0
    for kind in tail:
        for ncols in (1, 2):
            for crs in (1, 2, 3):
                for lead in (1, 2):
                    w = 2 * crs * ncols
                    names = [h.decode() for h in NAMES[:ncols]]
                    if len(",".join(names)) + 1 > w:
                        continue
                    cols = [dict(kind=kind, name=names[0], **extra[kind])] + [dict(kind="indexed", name=nm) for nm in names[1:]]
                    rows = [[KINDS["empty"]] * ncols for _ in range(lead * 2 * crs + 1)]
                    rows.append([(False, tail[kind])] + [KINDS["empty"]] * (ncols - 1))
                    data = render(NAMES[:ncols], rows)
                    use = crs if supported(data, crs, ncols) else min_crs(data, ncols)
                    n += 1
                    out.append({"op": "csv_typed", "file": list(data), "names": names, "cols": cols, "schema_names": names,
                                "crs": use, "include": None, "exclude": None, "via": "dict" if n % 2 else "json",
                                "fuel": 64 + 6 * len(data), "_n": 100000 + n, "_clean": True})
    return out


# ---- rejected cells, stratified (read_csv_typed_raises): importer kind x validation mode x class of the cell x row position ----
REJECT_TEXTS = {
    # kind: (column descriptor extras, acceptable text, {class: text})
    "bool": (dict(invalid=1), b"yes", {"empty": b"", "bad": b"tru"}),
    "int": (dict(dtype="int8", invalid=0), b"12", {"empty": b"", "bad": b"1.5", "range": b"300"}),
    "uint": (dict(dtype="uint16", invalid="max"), b"7", {"empty": b"", "bad": b"x7", "range": b"-1"}),
    "float": (dict(dtype="float64", invalid=160.5), b"1.5", {"empty": b"", "bad": b"1.5x"}),
    "datetime": (dict(day=True, flag=True), b"2020-06-15 19:45:39", {"empty": b"", "raise": b"2020-02-30 00:00:00"}),
    "date": (dict(day=True, flag=True), b"2021-03-04", {"empty": b"", "raise": b"2021-02-30"}),
}
# a categorical column without free text (fix NC06d): the cell is no category - a stranger, empty, a proper prefix of a key,
# a key plus a byte, a key in another case, a key with a trailing blank
REJECT_CATEGORICAL = (dict(cats=[{"k": b"no".hex(), "v": 0}, {"k": b"yes".hex(), "v": 1}], vtype="int8"), b"yes",
                      {"unknown": b"maybe", "empty": b"", "prefix": b"ye", "extension": b"yess", "case": b"Yes",
                       "trailing-blank": b"yes "})


def reject_texts(categorical=None):
    """the stratified rejected-cell table. categorical None: with the categorical rows once NC06d is no longer listed open
    (C06's stream passes True: always)"""
    if categorical is None:
        categorical = not _c06().nc06d_open()
    return dict(REJECT_TEXTS, categorical=REJECT_CATEGORICAL) if categorical else dict(REJECT_TEXTS)
REJECT_ROWS = 6
REJECT_LONG_ROW = 3


def _reject_col(key, mode, name):
    extra, good, classes = reject_texts(True)[key]
    kind = "int" if key == "uint" else key
    col = dict(kind=kind, name=name, **extra)
    if kind in ("bool", "int", "float"):
        col["mode"] = mode
    return col, good, classes


def typed_reject_cases(quick=False, categorical=None):
    """seed independent. One typed column `a` under test and a one-byte fixed-string column `b` whose long cell in row 3
    overflows its value budget (every run has a regrowth, and the record behind it is the first row of a kernel block); the
    cell of the given class is put into EVERY row position in turn, for every importer kind, every validation mode and every
    class of cell text (also the combinations the mode accepts: the import must then succeed with the flag cleared), with
    chunk_row_size = smallest supported, +1, +3 (thorough; kernel blocks of one to four records) and one window (quick: the
    combinations the mode accepts only in rows 0, 3, 5). Plus two-column files
    with two rejected cells of different exception classes, the earlier row in the later column, in both column orders: which
    one is reported depends on the chunking (row order across blocks, index_map order within a block)."""
    out, n = [], 0
    names = [h.decode() for h in NAMES[:2]]
    table = reject_texts(categorical)
    for key in table:
        modes = ["strict", "allow_empty", "relaxed"] if key in ("bool", "int", "uint", "float") else [None]
        for mode in modes:
            col, good, classes = _reject_col(key, mode, names[0])
            colb = dict(kind="fixed", name=names[1], strlen=1)
            for cls, text in classes.items():
                accepted = reject_class(col, text) is None
                for pos in range(REJECT_ROWS):
                    if quick and accepted and pos not in (0, REJECT_LONG_ROW, REJECT_ROWS - 1):
                        continue
                    if quick and key == "categorical" and cls not in ("unknown", "empty") and pos not in (0, REJECT_LONG_ROW + 1):
                        continue
                    rows = []
                    for r in range(REJECT_ROWS):
                        a = text if r == pos else good
                        b = b"y" * (len(good) + 4) if r == REJECT_LONG_ROW else b"x"
                        rows.append([(False, a), (False, b)])
                    data = render(NAMES[:2], rows)
                    lo = min_crs(data, 2)
                    for crs in ((lo, lo + 1, 1 << 10) if quick else (lo, lo + 1, lo + 3, 1 << 10)):
                        n += 1
                        out.append({"op": "csv_typed", "file": list(data), "names": names, "cols": [col, colb],
                                    "schema_names": names, "crs": crs, "include": None, "exclude": None,
                                    "via": "json" if n % 4 == 0 else "dict", "fuel": 64 + 6 * len(data), "_n": 200000 + n,
                                    "_clean": False, "_reject": [key, mode or "-", cls, pos]})
    # two rejected cells of different classes: row 0 in the later column, row 1 in the earlier column
    pairs = [("int", "strict", "range"), ("bool", "strict", "bad"), ("float", "allow_empty", "bad"), ("date", None, "raise"),
             ("uint", "relaxed", "range"), ("datetime", None, "raise")]
    if "categorical" in table:
        pairs.append(("categorical", None, "unknown"))
    for i, (k1, m1, c1) in enumerate(pairs):
        for (k2, m2, c2) in pairs[i + 1:]:
            for swap in (False, True):
                (ka, ma, ca), (kb, mb, cb) = ((k2, m2, c2), (k1, m1, c1)) if swap else ((k1, m1, c1), (k2, m2, c2))
                cola, gooda, clsa = _reject_col(ka, ma, names[0])
                colb, goodb, clsb = _reject_col(kb, mb, names[1])
                rows = [[(False, gooda), (False, clsb[cb])], [(False, clsa[ca]), (False, goodb)], [(False, gooda), (False, goodb)]]
                data = render(NAMES[:2], rows)
                lo = min_crs(data, 2)
                for crs in (lo, 1 << 10):
                    n += 1
                    out.append({"op": "csv_typed", "file": list(data), "names": names, "cols": [cola, colb],
                                "schema_names": names, "crs": crs, "include": None, "exclude": None, "via": "dict",
                                "fuel": 64 + 6 * len(data), "_n": 200000 + n, "_clean": False,
                                "_reject": [ka + "+" + kb, "-", "two-cells", 0]})
    return out


def reject_class(col, cell):
    """Python rendering of Csv.rejErr (Lemmas/CsvTypedRaise.lean): the class of the exception the importer of `col` raises on
    the cell text (None: the validation mode accepts it; 'unspecified': a timestamp text in no documented layout, about which
    the property says nothing)"""
    c6 = _c06()
    k = col["kind"]
    if k == "bool":
        cl = c6.bool_class(cell)
        if cl == "empty":
            return "other:Exception" if col["mode"] == "strict" else None
        if cl == "bad":
            return "other:Exception" if col["mode"] in ("strict", "allow_empty") else None
        return None
    if k in ("int", "float"):
        cl = c6.int_class(cell, col["dtype"]) if k == "int" else c6.float_class(cell, col["dtype"])
        if cl == "range":
            return "overflow_error"
        if cl == "empty":
            return "value_error" if col["mode"] == "strict" else None
        if cl == "bad":
            return "value_error" if col["mode"] != "relaxed" else None
        return None
    if k in ("datetime", "date"):
        x = (c6.ts_expect if k == "datetime" else c6.date_expect)(cell)[0]
        return {"raise": "value_error", "unspecified": "unspecified"}.get(x)
    if k == "categorical":
        # no free text allowed: a cell that equals no category key is refused (fix NC06d)
        return None if any(c6.unhx(c["k"]) == cell for c in col["cats"]) else "value_error"
    return None


def predict_reject(case, calls):
    """Python rendering of `Reported` (Props/C0506.lean, read_csv_typed_raises): given the kernel blocks of the run (`calls` =
    written_row_count of every kernel call), the cell whose rejection the import reports: the first rejected cell - index_map
    (= file) order of the selected columns, then row order - of the first block that holds one. None: no selected cell is
    rejected (or the case is outside the theorem's hypotheses)."""
    names = case["names"]
    colcells = typed_columns(case)
    if colcells is None or not isinstance(calls, list) or not supported(bytes(case["file"]), case["crs"], len(names)):
        return None
    inc, exc = case.get("include"), case.get("exclude")
    if any(k not in names for k in (inc or []) + (exc or [])):
        return None
    want = [k for k in names if (inc is None or k in inc) and (exc is None or k not in exc)]
    cols = {c["name"]: c for c in case["cols"] if c["name"] in case["schema_names"]}
    d = 0
    for bi, a in enumerate(calls):
        for k in want:
            col = cols.get(k)
            if col is None or col["kind"] not in ("bool", "int", "float", "datetime", "date", "categorical"):
                continue
            for r, cell in enumerate(colcells[names.index(k)][d:d + a]):
                rc = reject_class(col, cell)
                if rc is not None:
                    others = sum(1 for k2 in want if k2 != k and cols.get(k2) is not None and any(
                        reject_class(cols[k2], x) is not None for x in colcells[names.index(k2)][d:d + a]))
                    return {"block": bi, "d": d, "a": a, "col": k, "row": d + r, "cls": rc, "cell": cell,
                            "other_cols": others}
        d += a
    return None


def reject_tags(case, mo):
    """measured coverage of the rejected-cell strata, from the model's kernel-block trace"""
    tags = []
    rj = case.get("_reject")
    if rj:
        tags.append("reject-gen:%s:%s:%s" % (rj[0], rj[1], rj[2]))
    if not (mo and "err" in mo and isinstance(mo.get("calls"), list)):
        return tags
    pred = predict_reject(case, mo["calls"])
    if pred is None:
        return tags
    col = next(c for c in case["cols"] if c["name"] == pred["col"])
    tags.append("reject:%s:%s:%s" % (col["kind"], col.get("mode", "-"), pred["cls"]))
    flags = mo.get("flags") or []
    row, d, a, bi = pred["row"], pred["d"], pred["a"], pred["block"]
    if row == 0:
        tags.append("reject-at:first-row-of-file")
    if row == d and bi > 0 and any(x > 0 for x in mo["calls"][:bi]):
        tags.append("reject-at:first-row-of-later-block")
    if row == d + a - 1 and a >= 2:
        tags.append("reject-at:last-row-of-block")
    if d < row < d + a - 1:
        tags.append("reject-at:inside-block")
    if row == d and bi > 0 and bi - 1 < len(flags) and flags[bi - 1] != 0:
        tags.append("reject-at:first-row-after-regrowth")
    if pred["other_cols"]:
        tags.append("reject-two-columns-in-block")
    if rj and rj[2] != "two-cells":
        # the three strata the generator must reach for every rejecting (kind, mode, class): measured, per combination
        for t in list(tags):
            if t in ("reject-at:first-row-of-file", "reject-at:last-row-of-block", "reject-at:first-row-after-regrowth"):
                tags.append("reject-stratum:%s:%s:%s:%s" % (rj[0], rj[1], rj[2], t[10:]))
    return tags


def typed_columns(case):
    """the cell texts of every file column as the reference parser yields them (None: not a rectangular well-formed file)"""
    ref = parse_ref(bytes(case["file"]))
    ncols = len(case["names"])
    if ref is None or not ref or any(len(r) != ncols for r in ref):
        return None
    return [[r[c] for r in ref[1:]] for c in range(ncols)]


def typed_to_model(case):
    c6 = _c06()
    colcells = typed_columns(case) or [[] for _ in case["names"]]
    schema = []
    for ci, col in enumerate(case["cols"]):
        if col["name"] not in case["schema_names"]:
            continue
        if col["kind"] == "indexed":
            schema.append({"name": col["name"], "kind": "indexed"})
            continue
        m = c6.col_to_model(col, [[c6.hx(x) for x in colcells[ci]]])
        m.pop("chunks", None)
        m["name"] = col["name"]
        schema.append(m)
    m = {"op": "csv_typed", "file": case["file"], "names": case["names"], "schema": schema, "crs": case["crs"],
         "include": case.get("include"), "exclude": case.get("exclude"), "fuel": case["fuel"]}
    if c6.nc06d_open():
        # finding NC06d, while it is listed open: what the code AS FOUND computes is what the model computes for the same
        # schema with every cell that is no category listed as a category of value 0 (reported under `asfound`)
        alt, changed = [], False
        for e in schema:
            if e["kind"] == "categorical":
                ci = case["names"].index(e["name"])
                extra = sorted(set(c6.unmatched_cells(e, colcells[ci])))
                if extra:
                    e = dict(e, cats=e["cats"] + [{"k": c6.hx(x), "v": 0} for x in extra])
                    changed = True
            alt.append(e)
        if changed:
            m["schema_asfound"] = alt
    return m


def to_model(case):
    return typed_to_model(case) if case["op"] == "csv_typed" else case


def typed_definition(e, col):
    fi, c6 = e["fi"], _c06()
    k = col["kind"]
    if k == "indexed":
        return fi.String()
    if k in ("categorical", "leaky"):
        return fi.Categorical({c6.unhx(c["k"]).decode(): c["v"] for c in col["cats"]}, col.get("vtype", "int8"), k == "leaky")
    if k == "fixed":
        return fi.String(fixed_length=col["strlen"])
    if k == "bool":
        return fi.Numeric("bool", col.get("invalid", 0), col["mode"])
    if k in ("int", "float"):
        return fi.Numeric(col["dtype"], col.get("invalid", 0), col["mode"])
    if k == "datetime":
        return fi.DateTime(col.get("day", False), col.get("flag", False))
    return fi.Date(col.get("day", False), col.get("flag", False))


def typed_schema_json(case):
    import json
    c6 = _c06()
    doc = json.loads(c6.schema_json([c for c in case["cols"] if c["kind"] != "indexed"]))
    for c in case["cols"]:
        if c["kind"] == "indexed":
            doc["schema"]["t"]["fields"][c["name"]] = {"field_type": "string"}
    # load_schema keeps the order of the JSON object; the file order is what matters for the import anyway
    return json.dumps(doc)


def impl_typed(e, case):
    from io import StringIO
    c6 = _c06()
    name = _write(e, case["file"])
    try:
        bio = io.BytesIO()
        with e["Session"]() as s:
            ds = s.open_dataset(bio, "w", "d")
            df = ds.create_dataframe("t")
            if case.get("via") == "json":
                e["parsers"].read_csv(name, df, schema_file=StringIO(typed_schema_json(case)), chunk_row_size=case["crs"],
                                      timestamp=0.0)
            else:
                schema = {c["name"]: typed_definition(e, c) for c in case["cols"] if c["name"] in case["schema_names"]}
                e["parsers"].read_csv_with_schema_dict(name, df, schema, 0.0, case.get("include"), case.get("exclude"),
                                                       case["crs"])
            companions = set()
            fields = {}
            env6 = {"np": e["np"]}
            for col in case["cols"]:
                k = col["name"]
                if k not in df:
                    continue
                if col["kind"] == "indexed":
                    f = df[k]
                    fields[k] = {"idx": [int(x) for x in f.indices[:]], "vals": [int(x) for x in f.values[:]]}
                else:
                    fields[k] = c6.read_col(env6, df, col, k)
                companions |= {k + sfx for sfx in ("_valid", "_freetext", "_day", "_set")}
            order = [k for k in df.keys() if k not in companions and k not in ("j_valid_from", "j_valid_to")]
            return {"rows": int(len(df["j_valid_from"].data)), "fields": fields, "order": order}
    finally:
        os.unlink(name)


def compare_typed(case, io_, mo):
    """The implementation must answer like the composed model (importers with fix NC06d). While NC06d is listed open, a case
    with a cell that is no category in a categorical column without free text may instead be answered like the code as found
    (`asfound`, see typed_to_model): the property oracle reports it under the finding."""
    why = _compare_typed(case, io_, mo)
    if why and isinstance(mo.get("asfound"), dict) and _c06().nc06d_open() and _compare_typed(case, io_, mo["asfound"], asfound=True) is None:
        return None
    return why


CAT_MSG = re.compile(r"^Field '(.*?)': '(.*)' \(row (\d+)\) is not one of the categories", re.S)


def _compare_typed(case, io_, mo, asfound=False):
    c6 = _c06()
    if "err" in io_ or "err" in mo:
        a, b = c6.norm_err(io_.get("err", "<value>")), c6.norm_err(mo.get("err", "<value>"))
        if a != b:
            return f"impl err={a} ({io_.get('msg', '')[:100]}) model err={b}"
        # both raise the same class. read_csv_typed_raises also says WHICH rejected cell is reported: the first one (index_map
        # order, then row order) of the first kernel block that holds one; the blocks are those of the model's run
        pred = predict_reject(case, mo.get("calls"))
        if pred is None or pred["cls"] == "unspecified":
            return None
        where = (f"row {pred['row']} of column {pred['col']} ({pred['cell']!r}, block {pred['block']} = records "
                 f"{pred['d']}..{pred['d'] + pred['a'] - 1}) -> {pred['cls']}")
        if b != pred["cls"]:
            return f"model err={b} but the first rejected cell of the first kernel block that holds one is {where}"
        msg = io_.get("msg", "")
        import re
        mname = re.search(r"[Ff]ield '([^']*)'", msg)
        if mname and mname.group(1) != pred["col"]:
            return f"impl reports field {mname.group(1)!r} ({msg[:100]}) but the reported cell must be {where}"
        if "can not be parsed: " in msg and msg.split("can not be parsed: ", 1)[1] != pred["cell"].decode("utf-8", "replace").strip():
            return f"impl reports the text {msg.split('can not be parsed: ', 1)[1]!r} but the reported cell must be {where}"
        mcat = CAT_MSG.match(msg)
        if mcat and (mcat.group(2) != pred["cell"].decode("utf-8", "replace") or int(mcat.group(3)) != pred["row"]):
            return f"impl reports the text {mcat.group(2)!r} in row {mcat.group(3)} but the reported cell must be {where}"
        return None
    m = mo["ok"]
    if case.get("_reject") and case["_reject"][2] != "two-cells" and not asfound:
        # the stratified family: a mode that accepts the class of cell imports the file (checked against the oracle below);
        # a mode that rejects it must not get here
        key, mode, cls, pos = case["_reject"]
        if reject_class(case["cols"][0], reject_texts(True)[key][2][cls]) is not None:
            return f"a {cls} cell in a {key} column (mode {mode}) must be rejected, but model and implementation import the file"
    if io_["rows"] != m["rows"]:
        return f"rows impl={io_['rows']} model={m['rows']}"
    if io_["order"] != m["order"]:
        return f"imported fields impl={io_['order']} model={m['order']}"
    for col in case["cols"]:
        k = col["name"]
        if k not in io_["fields"]:
            continue
        if col["kind"] == "indexed":
            if io_["fields"][k] != m["fields"][k]:
                return f"field {k}: impl={str(io_['fields'][k])[:200]} model={str(m['fields'][k])[:200]}"
            continue
        why = c6.cmp_col(col, io_["fields"][k], {"ok": m["fields"][k]})
        if why:
            return f"column {k} ({col['kind']}): {why}"
    return None


def spec_typed(case, io_, skip=()):
    """typed import = C06.spec o C05.spec: every selected column holds the C06 oracle's value of the reference parser's cells,
    every companion has one entry per record"""
    c6 = _c06()
    data = bytes(case["file"])
    names = case["names"]
    colcells = typed_columns(case)
    if colcells is None or not supported(data, case["crs"], len(names)):
        return None
    nrec = len(colcells[0]) if colcells else 0
    inc, exc = case.get("include"), case.get("exclude")
    want = [k for k in names if (inc is None or k in inc) and (exc is None or k not in exc)]
    sel = [(c, colcells[names.index(c["name"])]) for c in case["cols"] if c["name"] in want]
    if "err" in io_:
        # a raise is what the property prescribes exactly when some selected cell must be rejected
        for c, cells in sel:
            if c["kind"] != "indexed" and c6.col_spec(c, cells, io_) is None:
                return None
        return f"raised {io_['err']} ({io_.get('msg', '')[:120]}) although every selected cell is acceptable to its importer"
    if io_["order"] != want:
        return f"imported fields {io_['order']} but include/exclude select {want}"
    if io_["rows"] != nrec:
        return f"{io_['rows']} rows (j_valid_from), the file has {nrec} records"
    for c, cells in sel:
        f = io_["fields"][c["name"]]
        if c["name"] in skip:
            continue
        if c["kind"] == "indexed":
            if cells_of(f) != cells or f["idx"][:1] != [0] or len(f["idx"]) != nrec + 1:
                return f"field {c['name']}: got {cells_of(f)[:8]} expected {cells[:8]}"
            continue
        why = c6.col_spec(c, cells, f)
        if why:
            return f"column {c['name']} ({c['kind']}): {why}"
        for key in ("valid", "set", "day"):
            if key in f and len(f[key]) != nrec:
                return f"column {c['name']}: companion {key} has {len(f[key])} rows, the file has {nrec} records"
        if "ft_indices" in f and len(f["ft_indices"]) != nrec + 1:
            return f"column {c['name']}: _freetext has {len(f['ft_indices'])} offsets for {nrec} records"
    return None


# ------------------------------------------------------------------------------------------------------------------
# implementation (worker processes)
# ------------------------------------------------------------------------------------------------------------------
_S = {}


def _env():
    if not _S:
        import numpy as np
        import warnings
        warnings.simplefilter("ignore")
        from exetera.core import csv_reader_speedup as crs_mod
        from exetera.core.session import Session
        from exetera.io import parsers
        from exetera.io.field_importers import String, Numeric
        from exetera.io import field_importers as fi
        tmpdir = "/dev/shm" if os.path.isdir("/dev/shm") else "/tmp"
        _S.update(np=np, m=crs_mod, Session=Session, parsers=parsers, String=String, Numeric=Numeric, fi=fi,
                  tmp=os.path.join(tmpdir, f"verif_c05_{os.getpid()}.csv"),
                  consts=[np.frombuffer(b, dtype="S1")[0][0] for b in (b'"', b",", b"\n", b" ")],
                  plain_jit=os.environ.get("USE_NUMBA", "").lower() != "false" and not os.environ.get("NUMBA_BOUNDSCHECK"))
    return _S


class _Rec:
    """recording importer with IndexedStringImporter.import_part's arithmetic"""

    def __init__(self):
        self.idx, self.vals, self.acc, self.calls = [0], bytearray(), 0, []

    def import_part(self, column_inds, column_vals, column_offsets, col_idx, written_row_count):
        n = written_row_count
        self.calls.append(int(n))
        index = column_inds[col_idx, :n + 1] + self.acc
        self.acc += int(column_inds[col_idx, n])
        off = column_offsets[col_idx]
        self.vals += bytes(column_vals[off: off + column_inds[col_idx, n]])
        self.idx.extend(int(x) for x in index[1:])

    def complete(self):
        pass


def _write(e, data):
    with open(e["tmp"], "wb") as f:
        f.write(bytes(data))
    return e["tmp"]


def impl(case):
    e = _env()
    np = e["np"]
    op = case["op"]
    if op == "csv_kernel":
        fn = e["m"].fast_csv_reader
        if case.get("_jit_unsafe") and e["plain_jit"]:
            # a line may hold more cells than columns: the compiled kernel would index out of bounds unchecked (undefined
            # behaviour, possibly a crashed worker), so this case runs the same function interpreted
            fn = getattr(fn, "py_func", fn)
        src = np.array(case["src"], dtype=np.uint8)
        inds = np.array(case["inds"], dtype=np.int64)
        vals = np.array(case["vals"], dtype=np.uint8)
        offs = np.array(case["offs"], dtype=np.int64)
        esc, sep, nl, ws = e["consts"]
        r = fn(src, case["start"], inds, vals, offs, bool(case["has_header"]), esc, sep, nl, ws)
        return {"next": int(r[0]), "written": int(r[1]), "inds_full": bool(r[2]), "vals_full": bool(r[3]), "vfc": int(r[4]),
                "inds": inds.tolist(), "vals": vals.tolist()}
    if op == "csv_driver":
        name = _write(e, case["file"])
        try:
            recs = [_Rec() for _ in case["index_map"]]
            offs = np.array(case["offs"], dtype=np.int64)
            # the full flag every kernel call returned (0 none, 1 indices full, 2 values full): the module attribute is
            # wrapped for the duration of this call only (no change to /repo)
            kernel, flags = e["m"].fast_csv_reader, []

            def recording(*a):
                r = kernel(*a)
                flags.append(1 if r[2] else (2 if r[3] else 0))
                return r
            e["m"].fast_csv_reader = recording
            try:
                n = e["m"].read_file_using_fast_csv_reader(name, case["crs"], offs, list(case["index_map"]), recs, None)
            finally:
                e["m"].fast_csv_reader = kernel
            calls = recs[0].calls if recs else None
            return {"rows": int(n), "calls": calls, "flags": flags,
                    "cols": [{"idx": r.idx, "vals": list(r.vals)} for r in recs]}
        finally:
            os.unlink(name)
    if op == "csv_import":
        name = _write(e, case["file"])
        try:
            schema = {}
            for s in case["schema"]:
                schema[s["name"]] = (e["String"]() if s["kind"] == "indexed" else
                                     e["Numeric"]("int32") if s["kind"] == "int" else e["String"](fixed_length=s["n"]))
            numeric = {s["name"] for s in case["schema"] if s["kind"] == "int"}
            skip = {"j_valid_from", "j_valid_to"} | {k + "_valid" for k in numeric}
            bio = io.BytesIO()
            with e["Session"]() as s:
                ds = s.open_dataset(bio, "w", "d")
                df = ds.create_dataframe("t")
                e["parsers"].read_csv_with_schema_dict(name, df, schema, 0.0, case.get("include"), case.get("exclude"),
                                                       case["crs"])
                fields = {}
                for k in df.keys():
                    if k in skip:
                        continue
                    f = df[k]
                    if k in numeric:
                        fields[k] = {"nums": [int(x) for x in f.data[:]], "valids": [bool(x) for x in df[k + "_valid"].data[:]]}
                    elif hasattr(f, "indices"):
                        fields[k] = {"idx": [int(x) for x in f.indices[:]], "vals": [int(x) for x in f.values[:]]}
                    else:
                        fields[k] = {"rows": [list(x) for x in f.data[:].tolist()]}
                return {"rows": int(len(df["j_valid_from"].data)), "fields": fields, "order": [k for k in df.keys() if k not in skip]}
        finally:
            os.unlink(name)
    if op == "csv_typed":
        return impl_typed(e, case)
    raise ValueError("unknown op " + op)


# ------------------------------------------------------------------------------------------------------------------
# comparison with the model
# ------------------------------------------------------------------------------------------------------------------

def compare(case, io_, mo, mode):
    if io_.get("skipped"):
        return None
    if "bad" in mo:
        return f"model driver rejected the case: {mo['bad']}"
    if case["op"] == "csv_typed":
        return compare_typed(case, io_, mo)
    if "err" in io_ or "err" in mo:
        a, b = io_.get("err"), mo.get("err")
        return None if a == b else f"impl err={a} ({io_.get('msg', '')[:80]}) model err={b}"
    m = mo["ok"]
    op = case["op"]
    if op == "csv_kernel":
        for k in ("next", "written", "inds_full", "vals_full", "vfc", "inds", "vals"):
            if io_[k] != m[k]:
                return f"{k}: impl={io_[k]} model={m[k]}"
        return None
    if op == "csv_driver":
        if io_["rows"] != m["rows"] or io_["cols"] != m["cols"]:
            return f"impl rows={io_['rows']} cols={str(io_['cols'])[:200]}  model rows={m['rows']} cols={str(m['cols'])[:200]}"
        if io_["calls"] is not None and io_["calls"] != m["calls"]:
            return f"kernel call trace differs: impl={io_['calls']} model={m['calls']}"
        if "flags" in io_ and "flags" in m and io_["flags"] != m["flags"]:
            return f"full-flag trace of the kernel calls differs (regrowth path): impl={io_['flags']} model={m['flags']}"
        bound = call_bound(case)
        if bound is not None and "flags" in io_ and len(io_["flags"]) > bound:
            return (f"{len(io_['flags'])} kernel calls on the implementation exceed the bound records + 2 + regrowthBound = {bound} "
                    f"of window_chunking_unobservable")
        return None
    if op == "csv_import":
        if io_["rows"] != m["rows"]:
            return f"rows impl={io_['rows']} model={m['rows']}"
        if io_["fields"] != m["fields"]:
            return f"fields impl={str(io_['fields'])[:300]} model={str(m['fields'])[:300]}"
        return None
    return "unknown op"


# ------------------------------------------------------------------------------------------------------------------
# the property's oracle
# ------------------------------------------------------------------------------------------------------------------

def cells_of(col):
    v = bytes(col["vals"])
    i = col["idx"]
    return [v[i[k]:i[k + 1]] for k in range(len(i) - 1)]


def check_spec(case, io_, mode):
    op = case["op"]
    if op == "csv_kernel" or io_.get("skipped"):
        return None                      # the property is about imports; the kernel op only ties the model
    if op == "csv_typed":
        return spec_typed(case, io_)
    data = bytes(case["file"])
    ncols = case["ncols"] if op == "csv_driver" else len(case["names"])
    ref = parse_ref(data)
    if ref is None or any(len(r) != ncols for r in ref):
        return None                      # not a well-formed rectangular file: no claim
    if not supported(data, case["crs"], ncols):
        return None                      # outside the supported regime (D6): no claim
    recs = ref[1:]
    if op == "csv_driver":
        if "err" in io_:
            return f"raised {io_['err']} ({io_.get('msg', '')[:120]}) on a well-formed file in the supported regime"
        if io_["rows"] != len(recs):
            return f"{io_['rows']} rows imported, the file has {len(recs)} records"
        for k, c in enumerate(case["index_map"]):
            got = cells_of(io_["cols"][k])
            exp = [r[c] for r in recs]
            if got != exp:
                return f"column {c}: got {got[:8]} expected {exp[:8]}"
            if io_["cols"][k]["idx"][0] != 0:
                return "index does not start at 0"
        return None
    # csv_import
    names = case["names"]
    inc, exc = case.get("include"), case.get("exclude")
    unknown = [k for k in (inc or []) + (exc or []) if k not in names]
    if unknown:
        return None if io_.get("err") == "value_error" else f"unknown include/exclude name {unknown} was not rejected"
    if "err" in io_:
        return f"raised {io_['err']} ({io_.get('msg', '')[:120]}) on a well-formed file in the supported regime"
    want = [k for k in names if (inc is None or k in inc) and (exc is None or k not in exc)]
    if io_["order"] != want:
        return f"imported fields {io_['order']} but include/exclude select {want}"
    if io_["rows"] != len(recs):
        return f"{io_['rows']} rows (j_valid_from), the file has {len(recs)} records"
    kinds = {s["name"]: s for s in case["schema"]}
    for k in want:
        c = names.index(k)
        exp = [r[c] for r in recs]
        f = io_["fields"][k]
        if "nums" in f:
            if f["nums"] != [int(x) if x else 0 for x in exp] or f["valids"] != [x != b"" for x in exp]:
                return f"numeric field {k}: got {f['nums'][:8]} {f['valids'][:8]} expected the values of {exp[:8]}"
            continue
        if "idx" in f:
            got = cells_of(f)
            if f["idx"][:1] != [0] or len(f["idx"]) != len(recs) + 1:
                return f"field {k}: index {f['idx'][:6]}… does not hold one entry per record"
        else:
            got = [bytes(x) for x in f["rows"]]
            exp = [x[:kinds[k]["n"]] for x in exp]
        if got != exp:
            return f"field {k}: got {got[:8]} expected {exp[:8]}"
    return None


def match_finding(case, io_, mode):
    # every defect found for C05 is repaired by a fix patch; nothing is open. (A csv_typed case that fails only in the way of
    # C06's finding NC06d is named as such; it counts as known only for a property under which the entry is listed open.)
    if case.get("op") == "csv_typed":
        return _c06().match_typed(case, io_)
    return None


def nontrivial(case, mo):
    if case["op"] == "csv_kernel":
        return bool(case["src"])
    if case["op"] == "csv_typed":
        if mo and "err" in mo and isinstance(mo.get("calls"), list):
            pred = predict_reject(case, mo["calls"])
            return bool(pred and pred["block"] > 0)
        return bool(mo and "ok" in mo and len(mo["ok"].get("flags", [])) > 1)
    if mo and "ok" in mo and len(mo["ok"].get("calls", [])) > 1:
        return True
    return Q in case["file"] or any(case["file"][i] in (SEPB, NLB) and case["file"][i + 1] == WSB
                                     for i in range(len(case["file"]) - 1))


def classify(case, mo):
    tags = [case["op"]]
    if mo and "err" in mo:
        tags.append("model-err:" + mo["err"])
    if case["op"] == "csv_typed":
        tags.extend(sorted({"typed:" + c["kind"] for c in case["cols"]}))
        tags.append("typed-via-" + case.get("via", "dict"))
        tags.extend(reject_tags(case, mo))
        if mo and "ok" in mo:
            fl = mo["ok"].get("flags", [])
            tags.append("typed-calls=1" if len(fl) <= 1 else ("typed-calls=2-3" if len(fl) <= 3 else "typed-calls>=4"))
            if 2 in fl:
                tags.append("typed-regrow-vals")
            if 1 in fl:
                tags.append("typed-regrow-inds")
        return tags
    if case["op"] == "csv_driver" and mo and "ok" in mo:
        calls = mo["ok"]["calls"]
        tags.append("calls=1" if len(calls) <= 1 else ("calls=2-3" if len(calls) <= 3 else "calls>=4"))
        if any(c == 0 for c in calls[1:]):
            tags.append("zero-row-call")
        tags.extend(regrowth_tags(mo["ok"].get("flags", []), calls))
    if case["op"] == "csv_kernel" and mo and "ok" in mo:
        if mo["ok"]["vals_full"]:
            tags.append("vals-full")
        if mo["ok"]["inds_full"]:
            tags.append("inds-full")
    if case["op"] != "csv_kernel" and Q in case["file"]:
        tags.append("quoted")
    return tags


def _larger_factor():
    """`larger_factor` of the driver as tools/translate_csv.py regenerated it (Gen/CsvConstants.lean)"""
    import re
    from checks import lib
    m = re.search(r"def LARGER_FACTOR : Nat := (\d+)", (lib.LEAN / "Exetera" / "Gen" / "CsvConstants.lean").read_text())
    return int(m.group(1)) if m else 2


def need(b, t, _f=[]):
    """Lemmas/CsvLines.lean `need`: number of regrowths (multiplications by larger_factor) after which b exceeds t"""
    if not _f:
        _f.append(max(2, _larger_factor()))
    n = 0
    while 0 < b <= t:
        b, n = _f[0] * b, n + 1
    return n


def call_bound(case):
    """the call bound of Props.C05.window_chunking_unobservable (records + 2 + regrowthBound) for a driver case inside the
    theorem's hypotheses (well-formed rectangular file, supported regime, budgets >= 1); None outside them"""
    data, ncols, offs = bytes(case["file"]), case["ncols"], case["offs"]
    ref = parse_ref(data)
    if not data or ref is None or not ref or any(len(r) != ncols for r in ref) or not supported(data, case["crs"], ncols):
        return None
    if any(offs[c + 1] - offs[c] < 1 for c in range(ncols)):
        return None
    recs = ref[1:]
    return (len(recs) + 2 + need(2 * case["crs"], len(recs))
            + sum(need(offs[c + 1] - offs[c], sum(len(r[c]) for r in recs)) for c in range(ncols)))


def regrowth_tags(flags, calls):
    """coverage of the regrowth path, from the model's per-call full flags: how often each buffer was enlarged in the run and the
    longest ladder of value-buffer doublings without a completed record in between (a cell >= 2^k budgets)"""
    tags = []
    ni, nv = flags.count(1), flags.count(2)
    if ni:
        tags.append("regrow-inds=%d" % ni)        # at most 1 in the supported regime (a window holds <= 2*crs records)
    if nv:
        tags.append("regrow-vals=" + (str(nv) if nv <= 3 else "4+"))
    if ni and nv:
        tags.append("regrow-both")
    run = best = 0
    for f, c in zip(flags, calls):
        run = run + 1 if (f == 2 and c == 0) else 0
        best = max(best, run)
    if best >= 2:
        tags.append("regrow-vals-ladder=" + (str(best) if best <= 3 else "4+"))
    if any(f != 0 for f in flags[:1]):
        tags.append("regrow-in-header-window-first-call")
    return tags


def select_for_mode(case, mode, tier):
    if case["op"] == "csv_typed":
        return case.get("_n", 0) % (9 if tier == "quick" else 5) == 0
    if case["op"] == "csv_kernel":
        if case.get("_jit_unsafe"):
            return len(case["src"]) <= (5 if tier == "quick" else 6)
        return len(case["src"]) <= 4 or (tier != "quick" and len(case["src"]) <= 5)
    if case["op"] == "csv_driver":
        return len(case["file"]) <= (14 if tier == "quick" else 24) and (tier != "quick" or case["crs"] % 2 == 1)
    return len(case["file"]) <= 30 and tier != "quick"


# ------------------------------------------------------------------------------------------------------------------
# worker warm-up: import ExeTera and compile the kernels before the first case, outside worker.py's per-case alarm
# (an alarm that fires inside numba's compilation pipeline leaves its type registry half initialised: every later
# compilation in that process then fails with TypingError)
# ------------------------------------------------------------------------------------------------------------------
def _warmup():
    data = b"a,bb\nx,1\n\"y\",2\n"
    impl(mk_kernel(data, 0, 2, 4, [8, 8], True))
    impl(mk_driver(data, 2, 4, [8, 8]))
    impl(mk_import(data, ["a", "bb"], ["i", "n"], 4))
    impl(mk_import(data, ["a", "bb"], [1, "i"], 4))


if os.path.basename(sys.argv[0]) == "worker.py":
    try:
        _warmup()
    except Exception:       # noqa  (a broken tree must surface as case results, not as a dead worker)
        pass


# the translated kernel of this property (`fast_csv_reader`, Gen/Kernels.lean) is run against the real compiled kernel as well
from checks.harness import genkernels  # noqa: E402
genkernels.install(globals(), "C05")
