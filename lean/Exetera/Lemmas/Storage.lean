import Exetera.Model.Storage
/-! Lemmas about the backing-store model: with the repaired `write_part`, every append is list append. -/
namespace Exetera.Storage

open Exetera

theorem sliceAssign_of_length {α} (dst : List α) (a b : Nat) (src : List α)
    (h : (slice dst a b).length = src.length) :
    sliceAssign dst a b src = .ok (dst.take a ++ src ++ dst.drop (a + src.length)) := by
  simp [sliceAssign, h]

theorem memWritePart_repaired {α} (z : α) (ds : Option (List α)) (part : List α) :
    memWritePart .repaired z ds part = .ok (some (ds.getD [] ++ part)) := by
  cases ds with
  | none => simp [memWritePart]
  | some old =>
    have h1 : (slice (List.replicate (old.length + part.length) z) 0 old.length).length = old.length := by
      simp [slice]
    have e1 := sliceAssign_of_length (List.replicate (old.length + part.length) z) 0 old.length old h1
    simp only [memWritePart, e1]
    have hn : (List.take 0 (List.replicate (old.length + part.length) z) ++ old ++
        List.drop (0 + old.length) (List.replicate (old.length + part.length) z)) = old ++ List.replicate part.length z := by
      simp
    rw [hn]
    have h2 : (slice (old ++ List.replicate part.length z) old.length (old ++ List.replicate part.length z).length).length
        = part.length := by
      simp [slice]
    have e2 := sliceAssign_of_length (old ++ List.replicate part.length z) old.length
      (old ++ List.replicate part.length z).length part h2
    simp only [e2]
    simp

theorem h5Write_eq {α} (z : α) (ds part : List α) :
    h5Write z ds part part.length = .ok (ds ++ part) := by
  unfold h5Write
  by_cases h0 : part.length = 0
  · have : part = [] := List.eq_nil_of_length_eq_zero h0
    subst this; simp
  · have hne : (part.length == 0) = false := by simp [h0]
    simp only [hne, Bool.false_eq_true, if_false, beq_self_eq_true, if_true]
    have h2 : (slice (ds ++ List.replicate part.length z) ((ds ++ List.replicate part.length z).length - part.length)
        (ds ++ List.replicate part.length z).length).length = part.length := by
      simp [slice]
    rw [sliceAssign_of_length _ _ _ _ h2]
    simp

/-- the array after appending `part` (what the repaired `write_part` produces) -/
def Arr.appended {α} : Arr α → List α → Arr α
  | .mem ds, part => .mem (some (ds.getD [] ++ part))
  | .h5 ds, part => .h5 (ds ++ part)

theorem Arr.writePart_repaired {α} (z : α) (a : Arr α) (part : List α) :
    a.writePart .repaired z part = .ok (a.appended part) := by
  cases a with
  | mem ds => simp [Arr.writePart, memWritePart_repaired, Arr.appended]
  | h5 ds => simp [Arr.writePart, h5Write_eq, Arr.appended]

@[simp] theorem Arr.contents_appended {α} (a : Arr α) (part : List α) :
    (a.appended part).contents = a.contents ++ part := by
  cases a with
  | mem ds => cases ds <;> simp [Arr.appended, Arr.contents]
  | h5 ds => simp [Arr.appended, Arr.contents]

@[simp] theorem Arr.contents_fresh {α} (h5 : Bool) : (Arr.fresh h5 : Arr α).contents = [] := by
  cases h5 <;> simp [Arr.fresh, Arr.contents]

theorem foldE_append {σ α} (f : σ → α → Except Err σ) (s : σ) (xs ys : List α) :
    foldE f s (xs ++ ys) = match foldE f s xs with
      | .ok s' => foldE f s' ys
      | .error e => .error e := by
  induction xs generalizing s with
  | nil => simp [foldE]
  | cons x xs ih =>
    simp only [List.cons_append, foldE]
    cases f s x with
    | error e => simp
    | ok s' => simpa using ih s'

/-- invariant rule for `foldE`: `P s done` is kept by every step, so it holds at the end for `done ++ xs` -/
theorem foldE_rule {σ α} (f : σ → α → Except Err σ) (P : σ → List α → Prop)
    (step : ∀ s done x, P s done → ∃ s', f s x = .ok s' ∧ P s' (done ++ [x])) :
    ∀ (xs : List α) (s : σ) (done : List α), P s done → ∃ s', foldE f s xs = .ok s' ∧ P s' (done ++ xs) := by
  intro xs
  induction xs with
  | nil => intro s done h; exact ⟨s, rfl, by simpa using h⟩
  | cons x xs ih =>
    intro s done h
    obtain ⟨s1, h1, hP1⟩ := step s done x h
    obtain ⟨s2, h2, hP2⟩ := ih s1 (done ++ [x]) hP1
    exact ⟨s2, by simp [foldE, h1, h2], by simpa using hP2⟩

theorem writeParts_repaired {α} (z : α) (a : Arr α) (parts : List (List α)) :
    ∃ a', writeParts .repaired z a parts = .ok a' ∧ a'.contents = a.contents ++ parts.flatten := by
  have := foldE_rule (Arr.writePart .repaired z) (fun (s : Arr α) done => s.contents = a.contents ++ done.flatten)
    (by
      intro s done x h
      exact ⟨s.appended x, Arr.writePart_repaired z s x, by simp [h]⟩)
    parts a [] (by simp)
  simpa [writeParts] using this

end Exetera.Storage
