import Exetera.Lemmas.CsvDriverG
/-! The three ways a driver iteration can end, as state equations (C05, regrowth). -/
namespace Exetera.Csv
open Exetera Spec

theorem afterKernel_plain {ncols : Nat} {im : List Nat} {s : DS} {content : Bytes} {start : Nat} {o : KOut}
    {imps' : List Imp} (hw : ¬ o.written < 0)
    (himp : importAll o.inds o.vals s.offs o.written.toNat im s.imps = .ok imps')
    (hif : o.indsFull = false) (hvf : o.valsFull = false) (hnp : o.nextPos ≠ 0) :
    afterKernel ncols im s content start o =
      .ok { s with ci := s.ci + o.nextPos, hasHeader := false, rows := s.rows + o.written, inds := o.inds, vals := o.vals, offs := s.offs, indsFull := false, valsFull := false, content := content, start := start, imps := imps', calls := s.calls ++ [o.written] } := by
  have hnp0 : (o.nextPos == 0) = false := beq_false_of_ne hnp
  simp only [afterKernel, hw, if_false, himp, hif, hvf, Bool.false_and, Bool.false_eq_true, Bool.or_self, Bool.not_false,
    Bool.true_and, hnp0]

theorem afterKernel_inds {ncols : Nat} {im : List Nat} {s : DS} {content : Bytes} {start : Nat} {o : KOut}
    {imps' : List Imp} (hw : ¬ o.written < 0)
    (himp : importAll o.inds o.vals s.offs o.written.toNat im s.imps = .ok imps')
    (hif : o.indsFull = true) (hvf : o.valsFull = false) :
    afterKernel ncols im s content start o =
      .ok { s with ci := s.ci, hasHeader := false, rows := s.rows + o.written, inds := zeros2 ncols (((o.inds.headD []).length - 1) * Gen.Csv.LARGER_FACTOR + 1), vals := o.vals, offs := s.offs, indsFull := true, valsFull := false, content := content, start := o.nextPos, imps := imps', calls := s.calls ++ [o.written] } := by
  simp only [afterKernel, hw, if_false, himp, hif, hvf, Bool.false_and, Bool.false_eq_true, Bool.or_false, Bool.not_true,
    Bool.false_and, if_true]

theorem afterKernel_vals {ncols : Nat} {im : List Nat} {s : DS} {content : Bytes} {start : Nat} {o : KOut}
    {imps' : List Imp} {j a b : Nat} (hw : ¬ o.written < 0)
    (himp : importAll o.inds o.vals s.offs o.written.toNat im s.imps = .ok imps')
    (hif : o.indsFull = false) (hvf : o.valsFull = true) (hvfc : o.vfc = some j)
    (ha : s.offs[j]? = some a) (hb : s.offs[j + 1]? = some b) :
    afterKernel ncols im s content start o =
      .ok { s with ci := s.ci, hasHeader := false, rows := s.rows + o.written, inds := o.inds, vals := List.replicate ((growOffs s.offs j ((b - a) * (Gen.Csv.LARGER_FACTOR - 1))).getLastD 0) 0, offs := growOffs s.offs j ((b - a) * (Gen.Csv.LARGER_FACTOR - 1)), indsFull := false, valsFull := true, content := content, start := o.nextPos, imps := imps', calls := s.calls ++ [o.written] } := by
  have ha' : getE s.offs j "column_offsets[val_full_col_idx]" = .ok a := getE_eq_ok.mpr ha
  have hb' : getE s.offs (j + 1) "column_offsets[val_full_col_idx+1]" = .ok b := getE_eq_ok.mpr hb
  simp only [afterKernel, hw, if_false, himp, hif, hvf, hvfc, Option.isSome_some, Bool.and_self, Option.getD_some, if_true,
    ha', hb', Bool.false_or, Bool.not_true, Bool.false_and, Bool.false_eq_true]

/-- under the invariant, the iteration calls the kernel on the window held for line `q`, entered at the end of line `e-1` -/
theorem driverStep_call {file : Bytes} {w ncols : Nat} {im : List Nat} {hrow : List Cell} {rows : List (List Cell)}
    {F : Nat → List Bytes → Imp} {s : DS} {q e maxrow : Nat} (hinv : DI F file w ncols im hrow rows s q e maxrow)
    (hlt : bnd hrow rows q < file.length)
    (hw : 0 < w) :
    driverStep file w ncols im s =
      match fastCsvReader (readWindow file (bnd hrow rows q) w) (bnd hrow rows e - bnd hrow rows q) s.inds s.vals s.offs
              (e == 0) with
      | .error err => .error err
      | .ok o => afterKernel ncols im s (readWindow file (bnd hrow rows q) w) (bnd hrow rows e - bnd hrow rows q) o := by
  rw [driverStep_eq]
  rcases hinv.win with ⟨hif, hvf, heq⟩ | ⟨hfull, _, hcontent, hstart, _⟩
  · have hslice : ((slice file (bnd hrow rows q) (bnd hrow rows q + w)).length == 0) = false := by
      apply beq_false_of_ne
      simp [slice]
      omega
    have h0 : bnd hrow rows e - bnd hrow rows q = 0 := by rw [heq]; omega
    simp only [hif, hvf, Bool.not_false, Bool.and_self, if_true, hslice, Bool.false_eq_true, if_false, hinv.ci, hinv.hh, h0,
      Bool.and_false, Bool.true_and]
    rfl
  · have hnf : (!s.indsFull && !s.valsFull) = false := by
      cases h1 : s.indsFull <;> cases h2 : s.valsFull <;> simp [h1, h2] at hfull ⊢
    simp only [hnf, Bool.false_and, Bool.false_eq_true, if_false, hcontent, hstart, hinv.hh]
    rfl

end Exetera.Csv
