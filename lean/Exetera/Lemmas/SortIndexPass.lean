import Exetera.Model.SortIndex
import Exetera.Lemmas.GroupByOrder
/-!
  `Session.dataset_sort_index` is the stable lexicographic sort: least-significant-key-first passes of a stable argsort.
  One pass (`sortPass_spec`) turns an index sorted by (keys `P`, row number) into one sorted by (`c :: P`, row number).
-/
namespace Exetera.SortIndex
open Exetera Exetera.Spec List

/-- the key tuple of row `i` of a list of columns -/
def keyAt (cols : List (List Int)) (i : Nat) : List Int := cols.map (·.getD i 0)

/-- row `i` comes strictly before row `j` in the (key tuple, row number) order -/
def ltBy (cols : List (List Int)) (i j : Nat) : Prop :=
  tupleLt (keyAt cols i) (keyAt cols j) = true ∨ (keyAt cols i = keyAt cols j ∧ i < j)

theorem gather_ok {α} (src : List α) (d : α) : ∀ (idx : List Nat), (∀ i ∈ idx, i < src.length) →
    gather src idx = .ok (idx.map (src.getD · d))
  | [], _ => rfl
  | i :: is, h => by
    have hi : i < src.length := h i (by simp)
    simp only [gather, getE_of_lt _ hi, gather_ok src d is (fun j hj => h j (by simp [hj])), consE_ok, List.map_cons]
    simp [List.getD_eq_getElem?_getD, List.getElem?_eq_getElem hi]

theorem leKey_trans (a b c : Int × Nat) : leKey a b = true → leKey b c = true → leKey a c = true := by
  simp only [leKey, decide_eq_true_eq]; omega

theorem leKey_total (a b : Int × Nat) : (leKey a b || leKey b a) = true := by
  simp only [leKey, Bool.or_eq_true, decide_eq_true_eq]; omega

/-- a stable sort by key of position-tagged values is sorted by (key, position) -/
theorem mergeSort_zipIdx_lex (vals : List Int) :
    (vals.zipIdx.mergeSort leKey).Pairwise (fun x y => x.1 < y.1 ∨ (x.1 = y.1 ∧ x.2 < y.2)) := by
  have hsorted := pairwise_mergeSort leKey_trans leKey_total vals.zipIdx
  have hpos : vals.zipIdx.Pairwise (fun x y => x.2 < y.2) := by
    rw [pairwise_iff_getElem]
    intro i j hi hj hij
    simp [getElem_zipIdx, hij]
  rw [pairwise_iff_forall_sublist] at hsorted ⊢
  intro x y hxy
  have hle : x.1 ≤ y.1 := by simpa [leKey] using hsorted hxy
  by_cases hlt : x.1 < y.1
  · exact Or.inl hlt
  · right
    have heq : x.1 = y.1 := by omega
    refine ⟨heq, ?_⟩
    -- the rows with this key keep their relative order
    let p : Int × Nat → Bool := fun z => z.1 == y.1
    have hc : (vals.zipIdx.filter p).Pairwise (fun a b => leKey a b = true) := by
      rw [pairwise_iff_forall_sublist]
      intro a b hab
      have ha : a ∈ vals.zipIdx.filter p := hab.subset (by simp)
      have hb : b ∈ vals.zipIdx.filter p := hab.subset (by simp)
      simp only [mem_filter, p, beq_iff_eq] at ha hb
      simp [leKey, ha.2, hb.2]
    have hsub : vals.zipIdx.filter p <+ vals.zipIdx.mergeSort leKey :=
      sublist_mergeSort leKey_trans leKey_total hc filter_sublist
    have hsub' : vals.zipIdx.filter p <+ (vals.zipIdx.mergeSort leKey).filter p := by
      have := hsub.filter p
      simpa [filter_filter] using this
    have hlen : (vals.zipIdx.filter p).length = ((vals.zipIdx.mergeSort leKey).filter p).length :=
      ((mergeSort_perm vals.zipIdx leKey).filter p).length_eq.symm
    have heq' := hsub'.eq_of_length hlen
    have hxy' : [x, y] <+ (vals.zipIdx.mergeSort leKey).filter p := by
      have := hxy.filter p
      simpa [p, heq] using this
    rw [← heq'] at hxy'
    have hp : (vals.zipIdx.filter p).Pairwise (fun x y => x.2 < y.2) := hpos.sublist filter_sublist
    rw [pairwise_iff_forall_sublist] at hp
    exact hp hxy'

theorem keyAt_cons (c : List Int) (P : List (List Int)) (i : Nat) : keyAt (c :: P) i = c.getD i 0 :: keyAt P i := rfl

theorem ltBy_cons_of_lt {c : List Int} {P : List (List Int)} {a b : Nat} (h : c.getD a 0 < c.getD b 0) : ltBy (c :: P) a b := by
  left; rw [keyAt_cons, keyAt_cons, tupleLt_cons_iff]; exact Or.inl h

theorem ltBy_cons_of_eq {c : List Int} {P : List (List Int)} {a b : Nat} (h : c.getD a 0 = c.getD b 0) (hp : ltBy P a b) :
    ltBy (c :: P) a b := by
  rcases hp with hp | ⟨hk, hab⟩
  · left; rw [keyAt_cons, keyAt_cons, tupleLt_cons_iff]; exact Or.inr ⟨h, hp⟩
  · right; rw [keyAt_cons, keyAt_cons, h, hk]; exact ⟨rfl, hab⟩

/-- one pass of the radix sort -/
theorem sortPass_spec (c : List Int) (P : List (List Int)) (acc : List Nat) (n : Nat) (hc : c.length = n)
    (hperm : acc.Perm (List.range n)) (hs : acc.Pairwise (ltBy P)) :
    ∃ out, sortPass c acc = .ok out ∧ out.Perm (List.range n) ∧ out.Pairwise (ltBy (c :: P)) := by
  have hlt : ∀ i ∈ acc, i < c.length := by
    intro i hi
    have := hperm.subset hi
    simp at this; omega
  let f : Nat → Int := fun i => c.getD i 0
  let M := ((acc.map f).zipIdx).mergeSort leKey
  let g : Int × Nat → Nat := fun x => acc.getD x.2 0
  have hmemM : ∀ x ∈ M, x.2 < acc.length ∧ x.1 = f (g x) := by
    intro x hx
    have hx' : x ∈ (acc.map f).zipIdx := (mergeSort_perm _ _).subset hx
    obtain ⟨hlt', hv⟩ := mem_zipIdx' (x := x.1) (i := x.2) hx'
    simp only [length_map] at hlt'
    refine ⟨hlt', ?_⟩
    simp only [g, List.getD_eq_getElem?_getD, List.getElem?_eq_getElem hlt', Option.getD_some]
    simpa using hv
  have hpos : ∀ p ∈ argsortStable (acc.map f), p < acc.length := by
    intro p hp
    simp only [argsortStable, mem_map] at hp
    obtain ⟨x, hx, rfl⟩ := hp
    exact (hmemM x hx).1
  refine ⟨M.map g, ?_, ?_, ?_⟩
  · unfold sortPass
    rw [gather_ok c 0 acc hlt]
    simp only
    rw [gather_ok acc 0 _ hpos]
    simp [argsortStable, M, g, f]
  · have h1 : (M.map g).Perm (((acc.map f).zipIdx).map g) := (mergeSort_perm _ _).map g
    have h2 : ((acc.map f).zipIdx).map g = acc := by
      apply List.ext_getElem
      · simp
      · intro i h1 h2
        simp only [length_map, length_zipIdx] at h1
        simp [g, getElem_zipIdx, List.getD_eq_getElem?_getD, List.getElem?_eq_getElem h1]
    rw [h2] at h1
    exact h1.trans hperm
  · rw [pairwise_map]
    refine (mergeSort_zipIdx_lex (acc.map f)).imp_of_mem ?_
    intro x y hx hy hxy
    obtain ⟨hx2, hx1⟩ := hmemM x hx
    obtain ⟨hy2, hy1⟩ := hmemM y hy
    rcases hxy with hlt' | ⟨heq, hp⟩
    · apply ltBy_cons_of_lt
      rw [hx1, hy1] at hlt'; exact hlt'
    · apply ltBy_cons_of_eq
      · rw [hx1, hy1] at heq; exact heq
      · have := (pairwise_iff_getElem.1 hs) x.2 y.2 hx2 hy2 hp
        simpa [g, List.getD_eq_getElem?_getD, List.getElem?_eq_getElem hx2, List.getElem?_eq_getElem hy2] using this

/-- all passes -/
theorem sortLoop_spec (n : Nat) : ∀ (rs P : List (List Int)) (acc : List Nat), (∀ c ∈ rs, c.length = n) →
    acc.Perm (List.range n) → acc.Pairwise (ltBy P) →
    ∃ out, sortLoop rs acc = .ok out ∧ out.Perm (List.range n) ∧ out.Pairwise (ltBy (rs.reverse ++ P))
  | [], P, acc, _, hp, hs => ⟨acc, rfl, hp, by simpa using hs⟩
  | r :: rs, P, acc, hl, hp, hs => by
    obtain ⟨acc', h1, hp', hs'⟩ := sortPass_spec r P acc n (hl r (by simp)) hp hs
    obtain ⟨out, h2, hp'', hs''⟩ := sortLoop_spec n rs (r :: P) acc' (fun c hc => hl c (by simp [hc])) hp' hs'
    refine ⟨out, by simp [sortLoop, h1, h2], hp'', ?_⟩
    simpa using hs''

theorem ltBy_nil (i j : Nat) : ltBy [] i j ↔ i < j := by
  simp [ltBy, keyAt, tupleLt]

/-- **`dataset_sort_index` is the stable lexicographic sort**: for `n`-row key columns and the start index `arange(n)`
    it returns (no IndexError) a permutation of the row numbers along which (key tuple, row number) strictly increases —
    i.e. key tuples are non-decreasing and rows with equal keys stay in their original order. -/
theorem datasetSortIndex_spec (c0 : List Int) (cs : List (List Int)) (n : Nat) (hl : ∀ c ∈ c0 :: cs, c.length = n) :
    ∃ idx, datasetSortIndex (c0 :: cs) (List.range n) = .ok idx ∧ idx.Perm (List.range n) ∧
      idx.Pairwise (ltBy (c0 :: cs)) := by
  have hs0 : (List.range n).Pairwise (ltBy []) := by
    refine pairwise_lt_range.imp ?_
    intro a b h; exact (ltBy_nil a b).2 h
  obtain ⟨out, h, hp, hs⟩ := sortLoop_spec n (c0 :: cs).reverse [] (List.range n)
    (fun c hc => hl c (by simp at hc; simp; exact hc.symm)) (Perm.refl _) hs0
  refine ⟨out, ?_, hp, by simpa using hs⟩
  unfold datasetSortIndex
  cases hrev : (c0 :: cs).reverse with
  | nil => simp at hrev
  | cons r rs => rw [hrev] at h; exact h

end Exetera.SortIndex
