import Exetera.Props.C12
/-!
# C11 — results identical with and without the JIT (what the model can carry)

The Lean model is a third, mode-independent semantics over unbounded integers; the one numba/Python divergence that is
expressible in it is fixed-width wrap-around. These range lemmas show it cannot occur in the join maps: every value a
generator stores is a row number of one of the two columns, or the caller's marker — so with fewer than 2^31 rows on each
side every stored value fits the int32 result dtype (`DataFrame.merge` chooses int64 beyond that).
Everything else (numba typing, typed lists, optional arguments, bytes comparison) is covered by the two-mode differential
run only; the claimed level of C11 is `other`.
-/
namespace Exetera.Props.C11
open Exetera Exetera.Join Exetera.Spec

theorem leftJoin_rows_in_range (L R : List Int) :
    ∀ p ∈ leftJoin L R, p.1 < L.length ∧ ∀ j, p.2 = some j → j < R.length := by
  intro p hp
  have := leftJoinFrom_bounds R L 0 p hp
  exact ⟨by omega, this.2.2⟩

/-- left map: every entry is a left row number -/
theorem left_map_range (L R : List Int) : ∀ x ∈ (encodeLeft 0 (leftJoin L R)).1, 0 ≤ x ∧ x < L.length := by
  intro x hx
  simp only [encodeLeft, encL, List.mem_map] at hx
  obtain ⟨p, hp, rfl⟩ := hx
  have := (leftJoin_rows_in_range L R p hp).1
  omega

/-- right map: every entry is a right row number or the marker -/
theorem right_map_range (inv : Int) (L R : List Int) :
    ∀ x ∈ (encodeLeft inv (leftJoin L R)).2, x = inv ∨ (0 ≤ x ∧ x < R.length) := by
  intro x hx
  simp only [encodeLeft, encR, List.mem_map] at hx
  obtain ⟨p, hp, rfl⟩ := hx
  cases h2 : p.2 with
  | none => left; simp [encCell]
  | some j =>
    right
    have := (leftJoin_rows_in_range L R p hp).2 j h2
    simp only [encCell]; omega

/-- hence with fewer than 2^31 rows per side the general left-join maps fit int32 (marker aside), for every chunk size -/
theorem left_streamed_fits_int32 {L R : List Int} {cs : Nat} (inv : Int) (hcs : 0 < cs) (hL : Sorted L) (hR : Sorted R)
    (hl : L.length < 2 ^ 31) (hr : R.length < 2 ^ 31) (fuel : Nat) (hfuel : C12.bound L R ≤ fuel) :
    ∃ o, streamed .left fuel cs inv L R = .ok o ∧ (∀ x ∈ o.lout, 0 ≤ x ∧ x < 2 ^ 31) ∧
      (∀ x ∈ o.rout, x = inv ∨ (0 ≤ x ∧ x < 2 ^ 31)) := by
  obtain ⟨c, h⟩ := C03.left_streamed_eq inv hcs hL hR fuel hfuel
  refine ⟨_, h, ?_, ?_⟩
  · intro x hx
    have hx' : x ∈ (encodeLeft 0 (leftJoin L R)).1 := by simpa [encodeLeft] using hx
    have := left_map_range L R x hx'
    omega
  · intro x hx
    rcases right_map_range inv L R x hx with h | h
    · exact Or.inl h
    · right; omega

end Exetera.Props.C11
