import Exetera.Lemmas.JoinLUSpec
/-!
  The left-unique kernels (`Variant.leftLU`, `Variant.innerLU`): global invariant and one lemma per branch of the kernel,
  in relational style (the successor state `d'` is described by field equations).

  `emit = true` is the left join (`leftLU`), `emit = false` the inner join (`innerLU`).
  Left chunks are untrimmed (no `Boundary`, but the window is exactly the logical chunk), right chunks are trimmed.
-/
namespace Exetera.Join.LU
open Exetera Exetera.Spec Exetera.Join

structure UInv (emit : Bool) (L R : List Int) (cs : Nat) (inv : Int) (d : D) : Prop where
  lok : ChunkOK L d.lch
  rok : ChunkOK R d.rch
  llen : d.lch.data.length = d.lch.hi - d.lch.lo
  rbd : Boundary R d.rch
  ile : d.k.i ≤ d.lch.hi - d.lch.lo
  jle : d.k.j ≤ d.rch.hi - d.rch.lo
  blen : d.k.lb.length = d.k.rb.length
  bcap : d.k.rb.length ≤ cs
  outL : d.lout ++ d.k.lb ++ encL (sel emit (pendU L R d.I d.J)) = encL (sel emit (leftJoin L R))
  outR : d.rout ++ d.k.rb ++ encR inv (sel emit (pendU L R d.I d.J)) = encR inv (sel emit (leftJoin L R))
  /-- either the kernel is at/inside the right run of left row `I`, or everything before `J` is smaller than `L[I]` -/
  h1 : ∀ a, L[d.I]? = some a → R[d.J]? = some a ∨ ∀ j b, j < d.J → R[j]? = some b → b < a

/-- kernel-local variant -/
def ukmu (d : D) : Nat := (d.lch.hi - d.lch.lo - d.k.i) + (d.rch.hi - d.rch.lo - d.k.j)

/-- global variant: every kernel iteration advances `I` or `J` -/
def ugmu (L R : List Int) (d : D) : Nat := (L.length - d.I) + (R.length - d.J)

section step
variable {emit : Bool} {L R : List Int} {cs : Nat} {inv : Int} {d d' : D}

/-- `left[i] < right[j]`: the unmatched left row is emitted (left join) or skipped (inner join) -/
theorem step_lt (hL : Sorted L) (hR : Sorted R) (hinv : UInv emit L R cs inv d)
    (hi : d.k.i < d.lch.hi - d.lch.lo)
    (hr : d.k.rb.length < cs) {a b : Int} (ha : L[d.I]? = some a) (hb : R[d.J]? = some b) (hab : a < b)
    (e_lch : d'.lch = d.lch) (e_rch : d'.rch = d.rch) (e_lout : d'.lout = d.lout) (e_rout : d'.rout = d.rout)
    (e_i : d'.k.i = d.k.i + 1) (e_j : d'.k.j = d.k.j)
    (e_lb : d'.k.lb = if emit then d.k.lb ++ [(d.I : Int)] else d.k.lb)
    (e_rb : d'.k.rb = if emit then d.k.rb ++ [inv] else d.k.rb) :
    UInv emit L R cs inv d' ∧ ukmu d' < ukmu d ∧ ugmu L R d' < ugmu L R d := by
  obtain ⟨hIlt, haL⟩ := List.getElem?_eq_some_iff.mp ha
  obtain ⟨hJlt, hbR⟩ := List.getElem?_eq_some_iff.mp hb
  have hI' : d'.I = d.I + 1 := by simp only [D.I, e_lch, e_i]; omega
  have hJ' : d'.J = d.J := by simp only [D.J, e_rch, e_j]
  have hfresh : ∀ j b', j < d.J → R[j]? = some b' → b' < a := by
    rcases hinv.h1 a ha with h | h
    · rw [hb] at h; cases h; omega
    · exact h
  have hfresh' : ∀ a', L[d.I + 1]? = some a' → ∀ j b', j < d.J → R[j]? = some b' → b' < a' := by
    intro a' ha' j b' hj hb'
    have := hfresh j b' hj hb'
    have hle := Sorted.le_get? hL (i := d.I) (j := d.I + 1) (by omega) ha ha'
    omega
  have hrest : rest L R d.I = (d.I, none) :: rest L R (d.I + 1) := by
    apply rest_lt hR hIlt (J := d.J) (by omega)
    · intro j hjl
      rw [haL]
      exact hfresh j _ hjl (get?_some_of_lt (by omega))
    · intro _; rw [haL, hbR]; exact hab
  have hpend : pendU L R d.I d.J = (d.I, none) :: rest L R (d.I + 1) := by
    rw [pendU_fresh (fun a' ha' => by rw [ha] at ha'; cases ha'; exact hfresh), hrest]
  have hpend' : pendU L R d'.I d'.J = rest L R (d.I + 1) := by
    rw [hI', hJ', pendU_fresh hfresh']
  have hoL := hinv.outL
  have hoR := hinv.outR
  rw [hpend, sel_cons_none] at hoL hoR
  have hblen := hinv.blen
  have hbcap := hinv.bcap
  have hile := hinv.ile
  refine ⟨⟨by rw [e_lch]; exact hinv.lok, by rw [e_rch]; exact hinv.rok, by rw [e_lch]; exact hinv.llen,
      by rw [e_rch]; exact hinv.rbd, by rw [e_lch, e_i]; omega, by rw [e_rch, e_j]; exact hinv.jle, ?_, ?_, ?_, ?_, ?_⟩,
      ?_, ?_⟩
  · rw [e_lb, e_rb]; cases emit <;> simp [hblen]
  · rw [e_rb]; cases emit <;> simp <;> omega
  · rw [hpend', e_lout, e_lb, ← hoL]; cases emit <;> simp
  · rw [hpend', e_rout, e_rb, ← hoR]; cases emit <;> simp [encCell]
  · intro a' ha'
    rw [hI'] at ha'; rw [hJ']
    exact Or.inr (hfresh' a' ha')
  · simp only [ukmu, e_lch, e_rch, e_i, e_j]; omega
  · simp only [ugmu, hI', hJ']; omega

/-- `left[i] > right[j]`: skip the right row -/
theorem step_gt (hinv : UInv emit L R cs inv d) (hj : d.k.j < d.rch.hi - d.rch.lo)
    {a b : Int} (ha : L[d.I]? = some a) (hb : R[d.J]? = some b) (hab : b < a)
    (e_lch : d'.lch = d.lch) (e_rch : d'.rch = d.rch) (e_lout : d'.lout = d.lout) (e_rout : d'.rout = d.rout)
    (e_i : d'.k.i = d.k.i) (e_j : d'.k.j = d.k.j + 1)
    (e_lb : d'.k.lb = d.k.lb) (e_rb : d'.k.rb = d.k.rb) :
    UInv emit L R cs inv d' ∧ ukmu d' < ukmu d ∧ ugmu L R d' < ugmu L R d := by
  obtain ⟨hJlt, hbR⟩ := List.getElem?_eq_some_iff.mp hb
  have hI' : d'.I = d.I := by simp only [D.I, e_lch, e_i]
  have hJ' : d'.J = d.J + 1 := by simp only [D.J, e_rch, e_j]; omega
  have hfresh : ∀ j b', j < d.J → R[j]? = some b' → b' < a := by
    rcases hinv.h1 a ha with h | h
    · rw [hb] at h; cases h; omega
    · exact h
  have hfresh' : ∀ a', L[d.I]? = some a' → ∀ j b', j < d.J + 1 → R[j]? = some b' → b' < a' := by
    intro a' ha' j b' hj hb'
    rw [ha] at ha'; cases ha'
    by_cases hjJ : j < d.J
    · exact hfresh j b' hjJ hb'
    · have : j = d.J := by omega
      subst this
      rw [hb] at hb'; cases hb'; exact hab
  have hpend : pendU L R d.I d.J = rest L R d.I :=
    pendU_fresh (fun a' ha' => by rw [ha] at ha'; cases ha'; exact hfresh)
  have hpend' : pendU L R d'.I d'.J = pendU L R d.I d.J := by
    rw [hI', hJ', pendU_fresh hfresh', hpend]
  refine ⟨⟨by rw [e_lch]; exact hinv.lok, by rw [e_rch]; exact hinv.rok, by rw [e_lch]; exact hinv.llen,
      by rw [e_rch]; exact hinv.rbd, by rw [e_lch, e_i]; exact hinv.ile, by rw [e_rch, e_j]; omega,
      by rw [e_lb, e_rb]; exact hinv.blen, by rw [e_rb]; exact hinv.bcap,
      by rw [hpend', e_lout, e_lb]; exact hinv.outL, by rw [hpend', e_rout, e_rb]; exact hinv.outR, ?_⟩, ?_, ?_⟩
  · intro a' ha'
    rw [hI'] at ha'; rw [hJ']
    exact Or.inr (hfresh' a' ha')
  · simp only [ukmu, e_lch, e_rch, e_i, e_j]; omega
  · simp only [ugmu, hI', hJ']; omega

/-- `left[i] == right[j]` and the right run ends after `j`: emit `(I, J)`, advance both -/
theorem step_eq_adv (hLs : L.Pairwise (· < ·)) (hR : Sorted R) (hinv : UInv emit L R cs inv d)
    (hi : d.k.i < d.lch.hi - d.lch.lo) (hj : d.k.j < d.rch.hi - d.rch.lo) (hr : d.k.rb.length < cs)
    {a : Int} (ha : L[d.I]? = some a) (hb : R[d.J]? = some a) (hend : ∀ b, R[d.J + 1]? = some b → a < b)
    (e_lch : d'.lch = d.lch) (e_rch : d'.rch = d.rch) (e_lout : d'.lout = d.lout) (e_rout : d'.rout = d.rout)
    (e_i : d'.k.i = d.k.i + 1) (e_j : d'.k.j = d.k.j + 1)
    (e_lb : d'.k.lb = d.k.lb ++ [(d.I : Int)]) (e_rb : d'.k.rb = d.k.rb ++ [(d.J : Int)]) :
    UInv emit L R cs inv d' ∧ ukmu d' < ukmu d ∧ ugmu L R d' < ugmu L R d := by
  obtain ⟨hIlt, haL⟩ := List.getElem?_eq_some_iff.mp ha
  obtain ⟨hJlt, hbR⟩ := List.getElem?_eq_some_iff.mp hb
  have hI' : d'.I = d.I + 1 := by simp only [D.I, e_lch, e_i]; omega
  have hJ' : d'.J = d.J + 1 := by simp only [D.J, e_rch, e_j]; omega
  have hfresh' : ∀ a', L[d.I + 1]? = some a' → ∀ j b', j < d.J + 1 → R[j]? = some b' → b' < a' := by
    intro a' ha' j b' hj hb'
    have h1 := Sorted.le_get? hR (i := j) (j := d.J) (by omega) hb' hb
    have h2 := strict_get? hLs (i := d.I) (j := d.I + 1) (by omega) ha ha'
    omega
  have hpend : pendU L R d.I d.J = (d.I, some d.J) :: rest L R (d.I + 1) := by
    rw [pendU_match ha hb, tailRows_step hb, tailRows_nil hR hend]; rfl
  have hpend' : pendU L R d'.I d'.J = rest L R (d.I + 1) := by
    rw [hI', hJ', pendU_fresh hfresh']
  have hoL := hinv.outL
  have hoR := hinv.outR
  rw [hpend, sel_cons_some] at hoL hoR
  have hblen := hinv.blen
  refine ⟨⟨by rw [e_lch]; exact hinv.lok, by rw [e_rch]; exact hinv.rok, by rw [e_lch]; exact hinv.llen,
      by rw [e_rch]; exact hinv.rbd, by rw [e_lch, e_i]; omega, by rw [e_rch, e_j]; omega,
      by rw [e_lb, e_rb]; simp [hblen], by rw [e_rb]; simp; omega,
      by rw [hpend', e_lout, e_lb, ← hoL]; simp, by rw [hpend', e_rout, e_rb, ← hoR]; simp [encCell], ?_⟩, ?_, ?_⟩
  · intro a' ha'
    rw [hI'] at ha'; rw [hJ']
    exact Or.inr (hfresh' a' ha')
  · simp only [ukmu, e_lch, e_rch, e_i, e_j]; omega
  · simp only [ugmu, hI', hJ']; omega

/-- `left[i] == right[j]` and the right run continues: emit `(I, J)`, advance `j` only -/
theorem step_eq_stay (hinv : UInv emit L R cs inv d)
    (hj1 : d.k.j + 1 < d.rch.hi - d.rch.lo) (hr : d.k.rb.length < cs)
    {a : Int} (ha : L[d.I]? = some a) (hb : R[d.J]? = some a) (hnext : R[d.J + 1]? = some a)
    (e_lch : d'.lch = d.lch) (e_rch : d'.rch = d.rch) (e_lout : d'.lout = d.lout) (e_rout : d'.rout = d.rout)
    (e_i : d'.k.i = d.k.i) (e_j : d'.k.j = d.k.j + 1)
    (e_lb : d'.k.lb = d.k.lb ++ [(d.I : Int)]) (e_rb : d'.k.rb = d.k.rb ++ [(d.J : Int)]) :
    UInv emit L R cs inv d' ∧ ukmu d' < ukmu d ∧ ugmu L R d' < ugmu L R d := by
  obtain ⟨hJlt, hbR⟩ := List.getElem?_eq_some_iff.mp hb
  have hI' : d'.I = d.I := by simp only [D.I, e_lch, e_i]
  have hJ' : d'.J = d.J + 1 := by simp only [D.J, e_rch, e_j]; omega
  have hpend : pendU L R d.I d.J = (d.I, some d.J) :: (tailRows a R d.I (d.J + 1) ++ rest L R (d.I + 1)) := by
    rw [pendU_match ha hb, tailRows_step hb]; rfl
  have hpend' : pendU L R d'.I d'.J = tailRows a R d.I (d.J + 1) ++ rest L R (d.I + 1) := by
    rw [hI', hJ', pendU_match ha hnext]
  have hoL := hinv.outL
  have hoR := hinv.outR
  rw [hpend, sel_cons_some] at hoL hoR
  have hblen := hinv.blen
  refine ⟨⟨by rw [e_lch]; exact hinv.lok, by rw [e_rch]; exact hinv.rok, by rw [e_lch]; exact hinv.llen,
      by rw [e_rch]; exact hinv.rbd, by rw [e_lch, e_i]; exact hinv.ile, by rw [e_rch, e_j]; omega,
      by rw [e_lb, e_rb]; simp [hblen], by rw [e_rb]; simp; omega,
      by rw [hpend', e_lout, e_lb, ← hoL]; simp, by rw [hpend', e_rout, e_rb, ← hoR]; simp [encCell], ?_⟩, ?_, ?_⟩
  · intro a' ha'
    rw [hI'] at ha'; rw [hJ']
    rw [ha] at ha'; cases ha'
    exact Or.inl hnext
  · simp only [ukmu, e_lch, e_rch, e_i, e_j]; omega
  · simp only [ugmu, hI', hJ']; omega

/-- the run of `R[lo + j]` cannot continue past the end of a trimmed chunk -/
theorem run_end (hR : Sorted R) {c : Chunk} (hc : ChunkOK R c) (hbd : Boundary R c) {j : Nat}
    (hj : j < c.hi - c.lo) (hj1 : ¬ j + 1 < c.hi - c.lo) {a : Int} (ha : R[c.lo + j]? = some a) :
    ∀ b, R[c.lo + j + 1]? = some b → a < b := by
  intro b hb
  have hend : c.lo + j + 1 = c.hi := by have := hc.lo_le; omega
  have hle := Sorted.le_get? hR (i := c.lo + j) (j := c.lo + j + 1) (by omega) ha hb
  have hne : b ≠ a := by
    rcases hbd with h | h
    · rw [hend, h] at hb; simp at hb
    · have e1 : c.hi - 1 = c.lo + j := by omega
      rw [e1, ← hend, ha, hb] at h
      intro hh; apply h; rw [hh]
  omega

end step
end Exetera.Join.LU
