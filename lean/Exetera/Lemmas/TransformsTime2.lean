import Exetera.Lemmas.TransformsTime
/-! C06: `int()` on digit groups and `parse_timestamp_bytes` on every accepted layout. -/
namespace Exetera.Transforms
open Exetera Exetera.Spec.Transforms

def natOfDigits (ds : Bytes) (acc : Nat) : Nat := ds.foldl (fun a d => a * 10 + (d - 48)) acc

def d1' (n : Nat) : Bytes := [48 + n % 10]

theorem digitsVal_digits (ds : Bytes) (acc : Nat) (prev : Bool) (h : ∀ d ∈ ds, isDigit d = true)
    (hne : ds ≠ [] ∨ prev = true) : digitsVal ds acc prev = some (natOfDigits ds acc) := by
  induction ds generalizing acc prev with
  | nil =>
    rcases hne with h | h
    · exact absurd rfl h
    · simp [digitsVal, natOfDigits, h]
  | cons d ds ih =>
    have hd := h d (by simp)
    simp only [digitsVal, hd, if_true]
    rw [ih _ true (fun x hx => h x (by simp [hx])) (Or.inr rfl)]
    rfl

theorem isSpace_of_isDigit (d : Nat) (h : isDigit d = true) : isSpaceByte d = false := by
  simp only [isDigit, Bool.and_eq_true, decide_eq_true_eq] at h
  simp only [isSpaceByte, Bool.or_eq_false_iff, beq_eq_false_iff_ne, Bool.and_eq_false_iff, decide_eq_false_iff_not]
  omega

theorem isSpace_of_isDigit_or_dash (d : Nat) (h : isDigit d = true ∨ d = 45) : isSpaceByte d = false := by
  rcases h with h | rfl
  · exact isSpace_of_isDigit d h
  · decide

theorem dropWhile_head_false {p : Nat → Bool} (d : Nat) (ds : Bytes) (h : p d = false) :
    (d :: ds).dropWhile p = d :: ds := by simp [List.dropWhile, h]

/-- nothing to strip from a non-empty list whose first and last bytes are not whitespace -/
theorem stripSpace_id (ds : Bytes) (h : ∀ d ∈ ds, isSpaceByte d = false) : stripSpace ds = ds := by
  unfold stripSpace
  have h1 : ds.dropWhile isSpaceByte = ds := by
    cases ds with
    | nil => rfl
    | cons d ds => exact dropWhile_head_false d ds (h d (by simp))
  rw [h1]
  have h2 : ds.reverse.dropWhile isSpaceByte = ds.reverse := by
    cases hr : ds.reverse with
    | nil => rfl
    | cons d r =>
      have : d ∈ ds := by
        have : d ∈ ds.reverse := by rw [hr]; simp
        simpa using this
      exact dropWhile_head_false d r (h d this)
  rw [h2, List.reverse_reverse]

theorem parseIntPy_of_strip (bs ds : Bytes) (hstrip : stripSpace bs = ds) (h : ∀ d ∈ ds, isDigit d = true) (hne : ds ≠ []) :
    parseIntPy bs = some ((natOfDigits ds 0 : Nat) : Int) := by
  unfold parseIntPy
  rw [hstrip]
  cases ds with
  | nil => exact absurd rfl hne
  | cons d ds' =>
    have hd := h d (by simp)
    simp only [isDigit, Bool.and_eq_true, decide_eq_true_eq] at hd
    split
    · rename_i heq; cases heq
    · rename_i heq; simp only [List.cons.injEq] at heq; omega
    · rename_i heq; simp only [List.cons.injEq] at heq; omega
    · rw [digitsVal_digits _ 0 false h (Or.inl (by simp))]; rfl

theorem parseIntPy_digits (ds : Bytes) (h : ∀ d ∈ ds, isDigit d = true) (hne : ds ≠ []) :
    parseIntPy ds = some ((natOfDigits ds 0 : Nat) : Int) :=
  parseIntPy_of_strip ds ds (stripSpace_id ds (fun d hd => isSpace_of_isDigit d (h d hd))) h hne

/-- a digit followed by a blank, as in the `.f UTC` layout (`int(b'1 ')`) -/
theorem parseIntPy_digit_blank (f : Nat) (hf : f < 10) : parseIntPy (d1' f ++ [32]) = some (f : Int) := by
  have hd : isDigit (48 + f % 10) = true := by simp only [isDigit, Bool.and_eq_true, decide_eq_true_eq]; omega
  have hsp := isSpace_of_isDigit _ hd
  have h32 : isSpaceByte 32 = true := by decide
  have hstrip : stripSpace ([48 + f % 10] ++ [32]) = [48 + f % 10] := by
    simp only [stripSpace, List.cons_append, List.nil_append]
    rw [dropWhile_head_false _ _ hsp]
    simp only [List.reverse_cons, List.reverse_nil, List.nil_append, List.cons_append, List.dropWhile, h32, hsp]
  have := parseIntPy_of_strip ([48 + f % 10] ++ [32]) [48 + f % 10] hstrip (by simp [hd]) (by simp)
  rw [d1', this]
  simp only [natOfDigits, List.foldl]
  congr 1; omega

theorem intAt_digits (v : Bytes) (a b : Nat) (ds : Bytes) (hs : slice v a b = ds) (h : ∀ d ∈ ds, isDigit d = true)
    (hne : ds ≠ []) : intAt v a b = .ok ((natOfDigits ds 0 : Nat) : Int) := by
  simp [intAt, hs, parseIntPy_digits ds h hne]

/-! ### fixed-width decimal groups -/

def d1 (n : Nat) : Bytes := d1' n
def d2 (n : Nat) : Bytes := [48 + n / 10 % 10, 48 + n % 10]
def d3 (n : Nat) : Bytes := [48 + n / 100 % 10, 48 + n / 10 % 10, 48 + n % 10]
def d4 (n : Nat) : Bytes := [48 + n / 1000 % 10, 48 + n / 100 % 10, 48 + n / 10 % 10, 48 + n % 10]
def d6 (n : Nat) : Bytes :=
  [48 + n / 100000 % 10, 48 + n / 10000 % 10, 48 + n / 1000 % 10, 48 + n / 100 % 10, 48 + n / 10 % 10, 48 + n % 10]

theorem isDigit_mod (x : Nat) : isDigit (48 + x % 10) = true := by
  simp only [isDigit, Bool.and_eq_true, decide_eq_true_eq]; omega

theorem d1_ok (n : Nat) (hn : n < 10) : (∀ d ∈ d1 n, isDigit d = true) ∧ natOfDigits (d1 n) 0 = n := by
  refine ⟨by simp [d1, d1', isDigit_mod], ?_⟩
  simp only [d1, d1', natOfDigits, List.foldl]; omega
theorem d2_ok (n : Nat) (hn : n < 100) : (∀ d ∈ d2 n, isDigit d = true) ∧ natOfDigits (d2 n) 0 = n := by
  refine ⟨by simp [d2, isDigit_mod], ?_⟩
  simp only [d2, natOfDigits, List.foldl]; omega
theorem d3_ok (n : Nat) (hn : n < 1000) : (∀ d ∈ d3 n, isDigit d = true) ∧ natOfDigits (d3 n) 0 = n := by
  refine ⟨by simp [d3, isDigit_mod], ?_⟩
  simp only [d3, natOfDigits, List.foldl]; omega
theorem d4_ok (n : Nat) (hn : n < 10000) : (∀ d ∈ d4 n, isDigit d = true) ∧ natOfDigits (d4 n) 0 = n := by
  refine ⟨by simp [d4, isDigit_mod], ?_⟩
  simp only [d4, natOfDigits, List.foldl]; omega
theorem d6_ok (n : Nat) (hn : n < 1000000) : (∀ d ∈ d6 n, isDigit d = true) ∧ natOfDigits (d6 n) 0 = n := by
  refine ⟨by simp [d6, isDigit_mod], ?_⟩
  simp only [d6, natOfDigits, List.foldl]; omega

end Exetera.Transforms
