import Exetera.Props.C08
import Exetera.Lemmas.GenKernelsSpans
import Exetera.Lemmas.GenKernelsSpansMinMax
import Exetera.Lemmas.GenKernelsSpansIndex
import Exetera.Lemmas.GenKernelsSpansMerge
import Exetera.Lemmas.GenKernelsSpansFilter
import Exetera.Lemmas.GenKernelsSpans2Fields
import Exetera.Lemmas.GenKernelsSpansIndexed
import Exetera.Lemmas.GenKernelsSpansMulti
import Exetera.Lemmas.GenKernelsSpansIdxMaxIndexed
/-!
  C08 over the TRANSLATED kernels.  `Gen/Kernels.lean` is regenerated from exetera/core/operations.py by
  tools/translate_njit.py on every run; the theorems below are therefore re-checked against what the source says NOW.

  * `gen_<kernel>_refines`: the translated kernel and the hand-written model of `Model/Spans.lean` return the same array
    or fail with the same error class, for every span array of naturals and every source column (`GenK.Sim`).
  * `gen_<kernel>_eq`: the property statement of Props/C08 for the translated kernel itself — on well-formed spans it
    returns `.ok` (no subscript out of range or negative, every loop finishes) and the per-span reduction of the Spec.
-/
namespace Exetera.Props.C08Gen

open Exetera Exetera.Spans Exetera.Spec Exetera.GenK Exetera.Gen.Kernels

/-- span ends of a well-formed span array are positive -/
theorem wellformed_tail_pos {sp : List Nat} {n : Nat} (h : Wellformed sp n) : ∀ x ∈ sp.tail, 0 < x := by
  obtain ⟨hp, hh, _⟩ := h
  cases sp with
  | nil => simp
  | cons a t =>
    intro x hx
    have := (List.pairwise_cons.mp hp).1 x (by simpa using hx)
    omega

/-! ## apply_spans_count -/

theorem gen_apply_spans_count_refines (sp : List Nat) :
    Sim (apply_spans_count.run (ints sp) none) (applySpansCount sp) := apply_spans_count_refines sp

/-- count = number of rows of each span, computed by the translated kernel -/
theorem gen_apply_spans_count_eq (sp : List Nat) (src : List Int) (h : Wellformed sp src.length) :
    apply_spans_count.run (ints sp) none = .ok ((pairs sp).map (fun p => ((rowsOf src p).length : Int))) :=
  (apply_spans_count_refines sp).ok_right (C08.apply_spans_count_eq sp src h)

example : apply_spans_count.run [0, 2, 3] none = .ok [2, 1] := rfl
example : Wellformed [0, 2, 3] [7, 8, 9].length := ⟨by decide, rfl, rfl⟩

/-! ## apply_spans_first / apply_spans_last -/

theorem gen_apply_spans_first_refines (sp : List Nat) (src : List Int) :
    Sim (apply_spans_first.run (ints sp) src none) (applySpansFirst sp src) := apply_spans_first_refines sp src

/-- first = first row of each span (no out-of-bounds read), computed by the translated kernel -/
theorem gen_apply_spans_first_eq (sp : List Nat) (src : List Int) (h : Wellformed sp src.length) :
    ∃ r, apply_spans_first.run (ints sp) src none = .ok r ∧ r.map some = (pairs sp).map (fun p => (rowsOf src p).head?) := by
  obtain ⟨r, hr, hs⟩ := C08.apply_spans_first_eq sp src h
  exact ⟨r, (apply_spans_first_refines sp src).ok_right hr, hs⟩

example : apply_spans_first.run [0, 2, 3] [7, 8, 9] none = .ok [7, 9] := rfl

theorem gen_apply_spans_last_refines (sp : List Nat) (src : List Int) (hpos : ∀ x ∈ sp.tail, 0 < x) :
    Sim (apply_spans_last.run (ints sp) src none) (applySpansLast sp src) := apply_spans_last_refines sp src hpos

/-- last = last row of each span, computed by the translated kernel -/
theorem gen_apply_spans_last_eq (sp : List Nat) (src : List Int) (h : Wellformed sp src.length) :
    ∃ r, apply_spans_last.run (ints sp) src none = .ok r ∧ r.map some = (pairs sp).map (fun p => (rowsOf src p).getLast?) := by
  obtain ⟨r, hr, hs⟩ := C08.apply_spans_last_eq sp src h
  exact ⟨r, (apply_spans_last_refines sp src (wellformed_tail_pos h)).ok_right hr, hs⟩

example : apply_spans_last.run [0, 2, 3] [7, 8, 9] none = .ok [8, 9] := rfl
example : ∀ x ∈ ([0, 2, 3] : List Nat).tail, 0 < x := by decide


/-! ## apply_spans_min / apply_spans_max -/

theorem gen_apply_spans_min_refines (sp : List Nat) (src : List Int) :
    Sim (apply_spans_min.run (ints sp) src none) (applySpansMin sp src) := apply_spans_min_refines sp src

theorem gen_apply_spans_max_refines (sp : List Nat) (src : List Int) :
    Sim (apply_spans_max.run (ints sp) src none) (applySpansMax sp src) := apply_spans_max_refines sp src

/-- min / max = minimum / maximum over exactly the rows of each span, computed by the translated kernels (both loops
    finish, no subscript out of range) -/
theorem gen_apply_spans_min_eq (sp : List Nat) (src : List Int) (h : Wellformed sp src.length) :
    ∃ r, apply_spans_min.run (ints sp) src none = .ok r ∧ r.map some = (pairs sp).map (fun p => (rowsOf src p).min?) := by
  obtain ⟨r, hr, hs⟩ := C08.apply_spans_min_eq sp src h
  exact ⟨r, (apply_spans_min_refines sp src).ok_right hr, hs⟩

theorem gen_apply_spans_max_eq (sp : List Nat) (src : List Int) (h : Wellformed sp src.length) :
    ∃ r, apply_spans_max.run (ints sp) src none = .ok r ∧ r.map some = (pairs sp).map (fun p => (rowsOf src p).max?) := by
  obtain ⟨r, hr, hs⟩ := C08.apply_spans_max_eq sp src h
  exact ⟨r, (apply_spans_max_refines sp src).ok_right hr, hs⟩

example : apply_spans_min.run [0, 2, 5] [3, 1, 4, 1, 5] none = .ok [1, 1] ∧
    apply_spans_max.run [0, 2, 5] [3, 1, 4, 1, 5] none = .ok [3, 5] := ⟨rfl, rfl⟩
example : Wellformed [0, 2, 5] [3, 1, 4, 1, 5].length := ⟨by decide, rfl, rfl⟩

/-! ## apply_spans_index_of_first / _last / _min / _max -/

theorem gen_apply_spans_index_of_first_refines (sp : List Nat) :
    Sim (apply_spans_index_of_first.run (ints sp) none) (applySpansIndexOfFirst sp) := apply_spans_index_of_first_refines sp

theorem gen_apply_spans_index_of_last_refines (sp : List Nat) :
    Sim (apply_spans_index_of_last.run (ints sp) none) (applySpansIndexOfLast sp) := apply_spans_index_of_last_refines sp

theorem gen_apply_spans_index_of_min_refines (sp : List Nat) (src : List Int) :
    Sim (apply_spans_index_of_min.run (ints sp) src none) (applySpansIndexOfMin sp src) :=
  apply_spans_index_of_min_refines sp src

theorem gen_apply_spans_index_of_max_refines (sp : List Nat) (src : List Int) :
    Sim (apply_spans_index_of_max.run (ints sp) src none) (applySpansIndexOfMax sp src) :=
  apply_spans_index_of_max_refines sp src

/-- index_of_first / index_of_last = first / last row number of each span, computed by the translated kernels -/
theorem gen_apply_spans_index_of_first_eq (sp : List Nat) (hne : sp.isEmpty = false) :
    apply_spans_index_of_first.run (ints sp) none = .ok ((pairs sp).map (fun p => (p.1 : Int))) :=
  (apply_spans_index_of_first_refines sp).ok_right (C08.apply_spans_index_of_first_eq sp hne)

theorem gen_apply_spans_index_of_last_eq (sp : List Nat) (hne : sp.isEmpty = false) :
    apply_spans_index_of_last.run (ints sp) none = .ok ((pairs sp).map (fun p => (p.2 : Int) - 1)) :=
  (apply_spans_index_of_last_refines sp).ok_right (C08.apply_spans_index_of_last_eq sp hne)

example : apply_spans_index_of_first.run [0, 2, 3] none = .ok [0, 2] ∧
    apply_spans_index_of_last.run [0, 2, 3] none = .ok [1, 2] := ⟨rfl, rfl⟩

/-- index_of_min / index_of_max = row number of the FIRST minimal / maximal row of each span -/
theorem gen_apply_spans_index_of_min_eq (sp : List Nat) (src : List Int) (h : Wellformed sp src.length) :
    ∃ r, apply_spans_index_of_min.run (ints sp) src none = .ok r ∧
      r.map some = (pairs sp).map (fun p => (argminOf (rowsOf src p)).map (fun k => ((p.1 + k : Nat) : Int))) := by
  obtain ⟨r, hr, hs⟩ := C08.apply_spans_index_of_min_eq sp src h
  exact ⟨r, (apply_spans_index_of_min_refines sp src).ok_right hr, hs⟩

theorem gen_apply_spans_index_of_max_eq (sp : List Nat) (src : List Int) (h : Wellformed sp src.length) :
    ∃ r, apply_spans_index_of_max.run (ints sp) src none = .ok r ∧
      r.map some = (pairs sp).map (fun p => (argmaxOf (rowsOf src p)).map (fun k => ((p.1 + k : Nat) : Int))) := by
  obtain ⟨r, hr, hs⟩ := C08.apply_spans_index_of_max_eq sp src h
  exact ⟨r, (apply_spans_index_of_max_refines sp src).ok_right hr, hs⟩

example : apply_spans_index_of_min.run [0, 2, 5] [3, 1, 4, 1, 1] none = .ok [1, 3] ∧
    apply_spans_index_of_max.run [0, 2, 5] [3, 3, 4, 5, 5] none = .ok [0, 3] := ⟨rfl, rfl⟩


/-! ## _get_spans_for_2_fields_by_spans -/

/-- for every fuel ≥ len(span1) the translated merge kernel and the model agree (same array / same error class) -/
theorem gen_get_spans_by_spans_refines (s0 s1 : List Nat) (fuel : Nat) (hf : s1.length ≤ fuel) :
    Sim (_get_spans_for_2_fields_by_spans.run (ints s0) (ints s1) fuel) ((getSpansFor2FieldsBySpans s0 s1).map ints) :=
  get_spans_for_2_fields_by_spans_refines s0 s1 fuel hf

/-- the translated kernel merges the span arrays of two equal-length columns, in bounds and within `len(span1)`
    iterations of its inner loop per call, into the span array of the zipped column -/
theorem gen_get_spans_by_spans_eq_spec {α β} [BEq α] [BEq β] (a : List α) (b : List β) (hl : a.length = b.length)
    (fuel : Nat) (hf : (getSpansForField neq b).length ≤ fuel) :
    _get_spans_for_2_fields_by_spans.run (ints (getSpansForField neq a)) (ints (getSpansForField neq b)) fuel
      = .ok (ints (spans neq (a.zip b))) := by
  have h := get_spans_for_2_fields_by_spans_refines (getSpansForField neq a) (getSpansForField neq b) fuel hf
  rw [C08.get_spans_by_spans_eq_spec a b hl] at h
  exact h.ok_right rfl

/-- any two well-formed span arrays over the same row count: the translated kernel returns their sorted union -/
theorem gen_merge_spans_eq_union (s0 s1 : List Nat) (n : Nat) (h0 : Wellformed s0 n) (h1 : Wellformed s1 n)
    (fuel : Nat) (hf : s1.length ≤ fuel) :
    ∃ m, _get_spans_for_2_fields_by_spans.run (ints s0) (ints s1) fuel = .ok (ints m) ∧ Wellformed m n ∧
      ∀ z, z ∈ m ↔ z ∈ s0 ∨ z ∈ s1 := by
  obtain ⟨m, hm, hw, hmem⟩ := C08.merge_spans_eq_union s0 s1 n h0 h1
  have h := get_spans_for_2_fields_by_spans_refines s0 s1 fuel hf
  rw [hm] at h
  exact ⟨m, h.ok_right rfl, hw, hmem⟩

example : _get_spans_for_2_fields_by_spans.run [0, 2, 5] [0, 1, 2, 4, 5] 5 = .ok [0, 1, 2, 4, 5] := rfl
example : Wellformed [0, 2, 5] 5 ∧ Wellformed [0, 1, 2, 4, 5] 5 := ⟨⟨by decide, rfl, rfl⟩, ⟨by decide, rfl, rfl⟩⟩

/-! ## the `_filter` forms (caller-supplied `dest_array` / `filter_array`, really subscripted) -/

theorem gen_apply_spans_index_of_first_filter_refines (sp : List Nat) (dest : List Int) (filt : List Bool) :
    Sim (apply_spans_index_of_first_filter.run (ints sp) dest filt) (applySpansIndexOfFirstFilter sp dest filt) :=
  apply_spans_index_of_first_filter_refines sp dest filt

theorem gen_apply_spans_index_of_last_filter_refines (sp : List Nat) (dest : List Int) (filt : List Bool) :
    Sim (apply_spans_index_of_last_filter.run (ints sp) dest filt) (applySpansIndexOfLastFilter sp dest filt) :=
  apply_spans_index_of_last_filter_refines sp dest filt

theorem gen_apply_spans_index_of_min_filter_refines (sp : List Nat) (src dest : List Int) (filt : List Bool) :
    Sim (apply_spans_index_of_min_filter.run (ints sp) src dest filt) (applySpansIndexOfMinFilter sp src dest filt) :=
  apply_spans_index_of_min_filter_refines sp src dest filt

theorem gen_apply_spans_index_of_max_filter_refines (sp : List Nat) (src dest : List Int) (filt : List Bool) :
    Sim (apply_spans_index_of_max_filter.run (ints sp) src dest filt) (applySpansIndexOfMaxFilter sp src dest filt) :=
  apply_spans_index_of_max_filter_refines sp src dest filt

/-- the statement of `C08.apply_spans_index_of_min_filter_eq` for the translated kernel: with room for one entry per span in both
    buffers it returns `.ok` (every subscript in range, none negative); `filter_array[k]` is True exactly for the non-empty spans;
    `dest_array[k]` is untouched for an empty span and otherwise the row number of the span's first minimum -/
theorem gen_apply_spans_index_of_min_filter_eq (sp : List Nat) (src dest : List Int) (filt : List Bool)
    (hw : C08.WeakSpans sp src.length) (hd : (pairs sp).length ≤ dest.length) (hf : (pairs sp).length ≤ filt.length) :
    ∃ (d : List Int) (f : List Bool), apply_spans_index_of_min_filter.run (ints sp) src dest filt = .ok (d, f) ∧
      d.length = dest.length ∧ f.length = filt.length ∧
      (∀ (k : Nat) (p : Nat × Nat), (pairs sp)[k]? = some p → f[k]? = some (p.1 != p.2) ∧
        ((p.1 = p.2 ∧ d[k]? = dest[k]?) ∨ (p.1 ≠ p.2 ∧ ∃ v, d[k]? = some v ∧
          (argminOf (rowsOf src p)).map (fun j => ((p.1 + j : Nat) : Int)) = some v))) ∧
      (∀ k : Nat, (pairs sp).length ≤ k → d[k]? = dest[k]? ∧ f[k]? = filt[k]?) := by
  obtain ⟨d, f, hr, rest⟩ := C08.apply_spans_index_of_min_filter_eq sp src dest filt hw hd hf
  exact ⟨d, f, (apply_spans_index_of_min_filter_refines sp src dest filt).ok_right hr, rest⟩

theorem gen_apply_spans_index_of_max_filter_eq (sp : List Nat) (src dest : List Int) (filt : List Bool)
    (hw : C08.WeakSpans sp src.length) (hd : (pairs sp).length ≤ dest.length) (hf : (pairs sp).length ≤ filt.length) :
    ∃ (d : List Int) (f : List Bool), apply_spans_index_of_max_filter.run (ints sp) src dest filt = .ok (d, f) ∧
      d.length = dest.length ∧ f.length = filt.length ∧
      (∀ (k : Nat) (p : Nat × Nat), (pairs sp)[k]? = some p → f[k]? = some (p.1 != p.2) ∧
        ((p.1 = p.2 ∧ d[k]? = dest[k]?) ∨ (p.1 ≠ p.2 ∧ ∃ v, d[k]? = some v ∧
          (argmaxOf (rowsOf src p)).map (fun j => ((p.1 + j : Nat) : Int)) = some v))) ∧
      (∀ k : Nat, (pairs sp).length ≤ k → d[k]? = dest[k]? ∧ f[k]? = filt[k]?) := by
  obtain ⟨d, f, hr, rest⟩ := C08.apply_spans_index_of_max_filter_eq sp src dest filt hw hd hf
  exact ⟨d, f, (apply_spans_index_of_max_filter_refines sp src dest filt).ok_right hr, rest⟩

/-- first / last row number of every non-empty span, for ANY span array, computed by the translated kernels -/
theorem gen_apply_spans_index_of_first_filter_eq (sp : List Nat) (dest : List Int) (filt : List Bool)
    (hd : (pairs sp).length ≤ dest.length) (hf : (pairs sp).length ≤ filt.length) :
    ∃ (d : List Int) (f : List Bool), apply_spans_index_of_first_filter.run (ints sp) dest filt = .ok (d, f) ∧
      d.length = dest.length ∧ f.length = filt.length ∧
      (∀ (k : Nat) (p : Nat × Nat), (pairs sp)[k]? = some p → f[k]? = some (p.1 != p.2) ∧
        ((p.1 = p.2 ∧ d[k]? = dest[k]?) ∨ (p.1 ≠ p.2 ∧ d[k]? = some (p.1 : Int)))) ∧
      (∀ k : Nat, (pairs sp).length ≤ k → d[k]? = dest[k]? ∧ f[k]? = filt[k]?) := by
  obtain ⟨d, f, hr, rest⟩ := C08.apply_spans_index_of_first_filter_eq sp dest filt hd hf
  exact ⟨d, f, (apply_spans_index_of_first_filter_refines sp dest filt).ok_right hr, rest⟩

theorem gen_apply_spans_index_of_last_filter_eq (sp : List Nat) (dest : List Int) (filt : List Bool)
    (hd : (pairs sp).length ≤ dest.length) (hf : (pairs sp).length ≤ filt.length) :
    ∃ (d : List Int) (f : List Bool), apply_spans_index_of_last_filter.run (ints sp) dest filt = .ok (d, f) ∧
      d.length = dest.length ∧ f.length = filt.length ∧
      (∀ (k : Nat) (p : Nat × Nat), (pairs sp)[k]? = some p → f[k]? = some (p.1 != p.2) ∧
        ((p.1 = p.2 ∧ d[k]? = dest[k]?) ∨ (p.1 ≠ p.2 ∧ d[k]? = some ((p.2 : Int) - 1)))) ∧
      (∀ k : Nat, (pairs sp).length ≤ k → d[k]? = dest[k]? ∧ f[k]? = filt[k]?) := by
  obtain ⟨d, f, hr, rest⟩ := C08.apply_spans_index_of_last_filter_eq sp dest filt hd hf
  exact ⟨d, f, (apply_spans_index_of_last_filter_refines sp dest filt).ok_right hr, rest⟩

example : apply_spans_index_of_min_filter.run [0, 0, 2, 3] [5, 4, 9] [7, 7, 7] [false, false, false] =
    .ok ([7, 1, 2], [false, true, true]) := rfl
example : apply_spans_index_of_last_filter.run [0, 0, 2, 3] [7, 7, 7] [false, false, false] =
    .ok ([7, 1, 2], [false, true, true]) := rfl

/-! ## _get_spans_for_2_fields_njit -/

/-- on ANY caller-supplied `spans` buffer: the slice the translated kernel returns is the model's span array for `cap = len(spans)`,
    or both fail with the same error class (buffer too short, second column shorter than the first) -/
theorem gen_get_spans_2_fields_njit_refines (a b buf : List Int) :
    Sim ((_get_spans_for_2_fields_njit.run a b buf).map Prod.fst)
      ((getSpansFor2FieldsNjit .repaired a b buf.length).map ints) :=
  get_spans_for_2_fields_njit_refines a b buf

/-- as `_get_spans_for_2_fields` calls it (a buffer of `len + 1` entries): the translated kernel returns `.ok` — no subscript out
    of range or negative, for every length including 0 — and the span array of the zipped column -/
theorem gen_get_spans_2_fields_eq_spec (a b : List Int) (hl : a.length = b.length) (buf : List Int)
    (hb : buf.length = a.length + 1) :
    ∃ buf', _get_spans_for_2_fields_njit.run a b buf = .ok (ints (spans neq (a.zip b)), buf') := by
  have h := get_spans_for_2_fields_njit_refines a b buf
  have hm : getSpansFor2FieldsNjit .repaired a b buf.length = .ok (spans neq (a.zip b)) := by
    rw [hb]; exact C08.get_spans_2_fields_eq_spec a b hl
  rw [hm] at h
  cases hr : _get_spans_for_2_fields_njit.run a b buf with
  | error e => rw [hr] at h; simp [Sim, Except.map] at h
  | ok r =>
    rw [hr] at h
    simp only [Sim, Except.map] at h
    exact ⟨r.2, by rw [← h]⟩

example : _get_spans_for_2_fields_njit.run [1, 1, 1, 2] [5, 6, 6, 6] [0, 0, 0, 0, 0] = .ok ([0, 1, 3, 4], [0, 1, 3, 4, 0]) := rfl
example : _get_spans_for_2_fields_njit.run [] [] [9] = .ok ([0], [0]) := rfl

/-! ## _get_spans_for_multi_fields_njit (2-D argument = the list of its rows) -/

theorem gen_get_spans_multi_fields_njit_refines (fs : List (List Int)) (buf : List Int) :
    Sim ((_get_spans_for_multi_fields_njit.run fs buf).map Prod.fst)
      ((getSpansForMultiFieldsNjit .repaired fs buf.length).map ints) :=
  get_spans_for_multi_fields_njit_refines fs buf

/-- as `_get_spans_for_multi_fields` calls it, for any number ≥ 1 of equal-length columns: `.ok` and the span array of the joint rows -/
theorem gen_get_spans_multi_fields_eq_spec (f0 : List Int) (fs : List (List Int))
    (hf : ∀ f ∈ f0 :: fs, f.length = f0.length) (buf : List Int) (hb : buf.length = f0.length + 1) :
    ∃ buf', _get_spans_for_multi_fields_njit.run (f0 :: fs) buf
      = .ok (ints (spans neq (jointRows (f0 :: fs) f0.length)), buf') := by
  have h := get_spans_for_multi_fields_njit_refines (f0 :: fs) buf
  have hm : getSpansForMultiFieldsNjit .repaired (f0 :: fs) buf.length = .ok (spans neq (jointRows (f0 :: fs) f0.length)) := by
    rw [hb]; exact C08.get_spans_multi_fields_eq_spec f0 fs hf
  rw [hm] at h
  cases hr : _get_spans_for_multi_fields_njit.run (f0 :: fs) buf with
  | error e => rw [hr] at h; simp [Sim, Except.map] at h
  | ok r =>
    rw [hr] at h
    simp only [Sim, Except.map] at h
    exact ⟨r.2, by rw [← h]⟩

example : _get_spans_for_multi_fields_njit.run [[1, 1, 1, 2], [5, 6, 6, 6], [0, 0, 0, 0]] [0, 0, 0, 0, 0]
    = .ok ([0, 1, 3, 4], [0, 1, 3, 4, 0]) := rfl
example : ∀ f ∈ [[1, 1, 1, 2], [5, 6, 6, 6], [0, 0, 0, 0]], f.length = [1, 1, 1, 2].length := by decide

/-! ## _get_spans_for_index_string_field -/

theorem gen_get_spans_indexed_refines (indices values : List Nat) :
    Sim (_get_spans_for_index_string_field.run (ints indices) (ints values))
      ((getSpansForIndexStringField .repaired indices values).map ints) :=
  get_spans_for_index_string_field_refines indices values

/-- for every well-formed index the translated kernel returns `.ok` and the spans of the decoded byte strings (compared
    byte-exactly) -/
theorem gen_get_spans_indexed_eq_spec (indices values : List Nat) (hv : ValidIndex indices values) :
    _get_spans_for_index_string_field.run (ints indices) (ints values)
      = .ok (ints (spans neq (decodeRows indices values))) := by
  have h := get_spans_for_index_string_field_refines indices values
  rw [C08.get_spans_indexed_eq_spec indices values hv] at h
  exact h.ok_right rfl

example : _get_spans_for_index_string_field.run [0, 1, 3, 5, 5, 5] [97, 97, 32, 97, 32] = .ok [0, 1, 3, 5] := rfl
example : _get_spans_for_index_string_field.run [] [] = .ok [0] := rfl

/-! ## apply_spans_index_of_min_indexed / _max_indexed (three nested loops, the byte loop with `break`)

  The hand model computes the row lengths `curend - curstart` in `Nat` (truncated at 0), the code in signed arithmetic: the two
  agree exactly when consecutive offsets never decrease (`GenK.NonDecreasing`), which every index of an IndexedStringField
  satisfies (`ValidIndex`).  The refinement is therefore stated under that hypothesis — for EVERY span array and value array
  (malformed ones included: same array or same error class). -/

theorem gen_apply_spans_index_of_min_indexed_refines (sp indices values : List Nat) (hmono : NonDecreasing indices) :
    Sim (apply_spans_index_of_min_indexed.run (ints sp) (ints indices) (ints values) none)
      (applySpansIndexOfMinIndexed .repaired sp indices values) :=
  apply_spans_index_of_min_indexed_refines sp indices values hmono

theorem gen_apply_spans_index_of_max_indexed_refines (sp indices values : List Nat) (hmono : NonDecreasing indices) :
    Sim (apply_spans_index_of_max_indexed.run (ints sp) (ints indices) (ints values) none)
      (applySpansIndexOfMaxIndexed sp indices values) :=
  apply_spans_index_of_max_indexed_refines sp indices values hmono

/-- the statement of `C08.apply_spans_index_of_min_indexed_eq` for the translated kernel: for a well-formed index and
    well-formed spans it returns `.ok` (no subscript of `spans` / `src_indices` / `src_values` out of range or negative, all three
    loops finish), one entry per span, the row number of the FIRST lexicographically minimal row of the span -/
theorem gen_apply_spans_index_of_min_indexed_eq (sp indices values : List Nat) (hv : ValidIndex indices values)
    (h : Wellformed sp (indices.length - 1)) :
    ∃ r, apply_spans_index_of_min_indexed.run (ints sp) (ints indices) (ints values) none = .ok r ∧
      r.length = (pairs sp).length ∧
      ∀ pv ∈ (pairs sp).zip r, ∃ k : Nat, pv.2 = (k : Int) ∧ IsFirstMinIn (decodeRows indices values) pv.1.1 pv.1.2 k := by
  obtain ⟨r, hr, rest⟩ := C08.apply_spans_index_of_min_indexed_eq sp indices values hv h
  exact ⟨r, (apply_spans_index_of_min_indexed_refines sp indices values (nonDecreasing_of_pairwise hv.1)).ok_right hr, rest⟩

theorem gen_apply_spans_index_of_max_indexed_eq (sp indices values : List Nat) (hv : ValidIndex indices values)
    (h : Wellformed sp (indices.length - 1)) :
    ∃ r, apply_spans_index_of_max_indexed.run (ints sp) (ints indices) (ints values) none = .ok r ∧
      r.length = (pairs sp).length ∧
      ∀ pv ∈ (pairs sp).zip r, ∃ k : Nat, pv.2 = (k : Int) ∧ IsFirstMaxIn (decodeRows indices values) pv.1.1 pv.1.2 k := by
  obtain ⟨r, hr, rest⟩ := C08.apply_spans_index_of_max_indexed_eq sp indices values hv h
  exact ⟨r, (apply_spans_index_of_max_indexed_refines sp indices values (nonDecreasing_of_pairwise hv.1)).ok_right hr, rest⟩

-- rows "b", "ab", "a", "a": min is row 2 (the first "a"), max is row 0
example : apply_spans_index_of_min_indexed.run [0, 4] [0, 1, 3, 4, 5] [98, 97, 98, 97, 97] none = .ok [2] ∧
    apply_spans_index_of_max_indexed.run [0, 4] [0, 1, 3, 4, 5] [98, 97, 98, 97, 97] none = .ok [0] := ⟨rfl, rfl⟩
example : NonDecreasing [0, 1, 3, 4, 5] := nonDecreasing_of_pairwise (by decide)
-- the hypothesis is needed: on decreasing offsets (row 0 empty, row 1 of "length" 0 - 1 = -1) the code prefers row 1, the model row 0
example : apply_spans_index_of_min_indexed.run [0, 2] [1, 1, 0] [97] none = .ok [1] ∧
    applySpansIndexOfMinIndexed .repaired [0, 2] [1, 1, 0] [97] = .ok [0] := ⟨rfl, rfl⟩

end Exetera.Props.C08Gen
