import Exetera.Model.Merge
import Exetera.Spec.Merge
import Exetera.Spec.MapValid
import Exetera.Lemmas.MapValidStream
import Exetera.Lemmas.MapValidIndexed4
import Exetera.Lemmas.MapValidFlat2
import Exetera.Lemmas.MergeFit
/-! Helper lemmas for C02, part 1: one destination column = the selected source rows (through the C04 theorems), and the
    sequential creation of the destination fields. -/
namespace Exetera.Merge

open Exetera Exetera.Spec Exetera.MapValid

/-- the destination column a source column must become for a given list of selected rows -/
def selectCol : Col → List (Option Nat) → Option Col
  | .flat e vals, sel => (selectCells vals e sel).map (Col.flat e)
  | .indexed ix vs, sel =>
    (selectCells (entries ix vs) [] sel).map (fun es => Col.indexed (encodeIndexed es).1 (encodeIndexed es).2)

/-- a row selection as a join map with marker `inv` -/
def encSel (inv : Int) (sel : List (Option Nat)) : List Int := sel.map (encCell inv)

theorem mapSpec_encSel {α} (src : List α) (inv : Int) (empty : α) :
    ∀ (sel : List (Option Nat)), (∀ i, some i ∈ sel → (i : Int) ≠ inv) →
      mapSpec src inv empty (encSel inv sel) = selectCells src empty sel
  | [], _ => rfl
  | none :: rest, h => by
    have ih := mapSpec_encSel src inv empty rest (fun i hi => h i (List.mem_cons_of_mem _ hi))
    simp only [encSel, List.map_cons, encCell, mapSpec, lookup, if_true, selectCells] at ih ⊢
    rw [ih]
    cases selectCells src empty rest <;> rfl
  | some i :: rest, h => by
    have ih := mapSpec_encSel src inv empty rest (fun j hj => h j (List.mem_cons_of_mem _ hj))
    have hi : (i : Int) ≠ inv := h i (List.mem_cons_self)
    simp only [encSel, List.map_cons, encCell, mapSpec, lookup, selectCells] at ih ⊢
    rw [ih]
    simp only [hi, if_false, Int.natCast_nonneg, if_true, Int.toNat_natCast]
    rfl

theorem inRange_encSel (n : Nat) (inv : Int) (sel : List (Option Nat)) (hsel : ∀ i, some i ∈ sel → i < n) :
    InRange n (encSel inv sel) inv := by
  intro p k hpk hk
  simp only [encSel, List.getElem?_map] at hpk
  cases hs : sel[p]? with
  | none => simp [hs] at hpk
  | some o =>
    simp only [hs, Option.map_some, Option.some.injEq] at hpk
    cases o with
    | none => simp [encCell] at hpk; exact absurd hpk.symm hk
    | some i =>
      simp only [encCell] at hpk
      have := hsel i (List.mem_of_getElem? hs)
      omega

/-- the hypotheses about one source column under which its mapping is total -/
structure ColOK (col : Col) (n : Nat) (cap : Nat) : Prop where
  len : col.len = n
  indexedOK : ∀ ix vs, col = .indexed ix vs → IndexedOK ix vs ∧ ∀ e ∈ entries ix vs, e.length ≤ cap

/-- a source column as the property grants it: the right number of rows, an indexed column well formed (C01). Nothing is
    asked about entry lengths (the streamed mapper sizes its value buffer itself since fix NC02c). -/
structure ColWF (col : Col) (n : Nat) : Prop where
  len : col.len = n
  indexedOK : ∀ ix vs, col = .indexed ix vs → IndexedOK ix vs

theorem ColWF.of_ok {col : Col} {n cap : Nat} (h : ColOK col n cap) : ColWF col n :=
  ⟨h.len, fun ix vs e => (h.indexedOK ix vs e).1⟩

theorem entries_len_of_ok {ix vs : List Int} (n : Nat) (h : (Col.indexed ix vs).len = n) (hok : IndexedOK ix vs) :
    (entries ix vs).length = n := by
  rw [entries_length]
  simpa [Col.len] using h

/-- **one streamed column** (`ordered_map_valid_stream` / `ordered_map_valid_indexed_stream` with the `invalid` the call
    site passes): the destination column is the selected rows of the source -/
theorem mapColumn_stream_wf (side : String) (col : Col) (n : Nat) (sel : List (Option Nat)) (inv : Int) (cs vf : Nat)
    (hflat : mapPlan side "flat" = .ok (.stream true)) (hidx : mapPlan side "indexed" = .ok (.istream true))
    (hcs : 1 ≤ cs) (hcol : ColWF col n) (hsel : ∀ i, some i ∈ sel → i < n) (hinv : (n : Int) ≤ inv) :
    ∃ out, mapColumn side col (some (encSel inv sel)) inv cs vf = .ok out ∧ selectCol col sel = some out := by
  have hne : ∀ i, some i ∈ sel → (i : Int) ≠ inv := fun i hi => by have := hsel i hi; omega
  cases col with
  | flat e vals =>
    have hl : vals.length = n := by simpa [Col.len] using hcol.len
    obtain ⟨out, h1, h2⟩ := stream_spec_any vals (encSel inv sel) inv cs e hcs (by rw [hl]; exact inRange_encSel n inv sel hsel)
    refine ⟨.flat e out, ?_, ?_⟩
    · simp only [mapColumn, Col.isIndexed, Bool.false_eq_true, if_false]
      rw [hflat]
      simp only [if_true]
      rw [h1]
    · rw [mapSpec_encSel vals inv e sel hne] at h2
      simp [selectCol, h2]
  | indexed ix vs =>
    have hok := hcol.indexedOK ix vs rfl
    have hl := entries_len_of_ok n hcol.len hok
    -- the stream sizes its own value buffer (fix NC02c): every entry fits, whatever the caller's floor `vf`
    obtain ⟨out, h1, h2⟩ := indexed_stream_spec_any ix vs (encSel inv sel) inv cs (autoValueFactor vf ix cs) hok hcs
      (by rw [hl]; exact inRange_encSel n inv sel hsel)
      (fun _ _ x _ _ hx => entries_fit_auto vf ix vs cs hcs x (List.mem_of_getElem? hx))
    refine ⟨.indexed out.1 out.2, ?_, ?_⟩
    · simp only [mapColumn, Col.isIndexed, if_true]
      rw [hidx]
      simp only [if_true]
      rw [h1]
    · simp only [mapIndexedSpec, mapSpec_encSel (entries ix vs) inv [] sel hne] at h2
      simp only [selectCol]
      cases hs : selectCells (entries ix vs) [] sel with
      | none => simp [hs] at h2
      | some es => simp [hs] at h2; simp [← h2]

/-- the same with the (no longer needed) capacity hypothesis of the time before fix NC02c -/
theorem mapColumn_stream (side : String) (col : Col) (n : Nat) (sel : List (Option Nat)) (inv : Int) (cs vf : Nat)
    (hflat : mapPlan side "flat" = .ok (.stream true)) (hidx : mapPlan side "indexed" = .ok (.istream true))
    (hcs : 1 ≤ cs) (hcol : ColOK col n (cs * vf)) (hsel : ∀ i, some i ∈ sel → i < n) (hinv : (n : Int) ≤ inv) :
    ∃ out, mapColumn side col (some (encSel inv sel)) inv cs vf = .ok out ∧ selectCol col sel = some out :=
  mapColumn_stream_wf side col n sel inv cs vf hflat hidx hcs (ColWF.of_ok hcol) hsel hinv

/-- the selection "every row once, in order" -/
def idSel (n : Nat) : List (Option Nat) := (List.range n).map some

theorem selectCells_range {α} (src : List α) (empty : α) :
    ∀ (k : Nat) (pre : List α), src = pre ++ src.drop pre.length → k + pre.length = src.length →
      selectCells src empty ((List.range' pre.length k).map some) = some (src.drop pre.length)
  | 0, pre, _, hk => by
    have : src.drop pre.length = [] := List.drop_eq_nil_of_le (by omega)
    simp [List.range', selectCells, this]
  | k + 1, pre, hpre, hk => by
    have hlt : pre.length < src.length := by omega
    have hd : src.drop pre.length = src[pre.length] :: src.drop (pre.length + 1) := List.drop_eq_getElem_cons hlt
    have ih := selectCells_range src empty k (pre ++ [src[pre.length]])
      (by simp only [List.length_append, List.length_singleton, List.append_assoc, List.singleton_append]; rw [← hd]; exact hpre)
      (by simp; omega)
    simp only [List.length_append, List.length_singleton] at ih
    simp only [List.range', List.map_cons, selectCells, List.getElem?_eq_getElem hlt, ih, hd]

theorem selectCells_id {α} (src : List α) (empty : α) : selectCells src empty (idSel src.length) = some src := by
  have := selectCells_range src empty src.length [] (by simp) (by simp)
  simpa [idSel, List.range_eq_range'] using this

/-- `safe_map_values` / `safe_map_indexed_values` with pandas' row numbers and `notnull` filters (the unordered path):
    the destination column is the selected rows of the source -/
theorem safeMapColumn_spec (col : Col) (n : Nat) (sel : List (Option Nat))
    (hcol : ColOK col n 0 ∨ ∃ cap, ColOK col n cap) (hsel : ∀ i, some i ∈ sel → i < n) :
    ∃ out, safeMapColumn col sel = .ok out ∧ selectCol col sel = some out := by
  have hcol' : ∃ cap, ColOK col n cap := by
    rcases hcol with h | h
    · exact ⟨0, h⟩
    · exact h
  obtain ⟨cap, hc⟩ := hcol'
  have hne : ∀ i, some i ∈ sel → (i : Int) ≠ -1 := fun i _ => by omega
  have hmap : mapOf sel = encSel (-1) sel := by
    simp only [mapOf, encSel]
    apply List.map_congr_left
    intro o _
    cases o <;> rfl
  have hfilt : filtOf sel = (encSel (-1) sel).map (fun k => k != -1) := by
    simp only [filtOf, encSel, List.map_map]
    apply List.map_congr_left
    intro o _
    cases o with
    | none => simp [encCell]
    | some i => simp [encCell]
  cases col with
  | flat e vals =>
    have hl : vals.length = n := by simpa [Col.len] using hc.len
    obtain ⟨out, h1, h2⟩ := safeMapValues_mapSpec vals (encSel (-1) sel) (-1) none e
      (by rw [hl]; exact inRange_encSel n (-1) sel hsel)
    refine ⟨.flat e out, ?_, ?_⟩
    · simp only [safeMapColumn, hmap, hfilt, h1]
    · simp only [Option.getD_none, mapSpec_encSel vals (-1) e sel hne] at h2
      simp [selectCol, h2]
  | indexed ix vs =>
    obtain ⟨hok, _⟩ := hc.indexedOK ix vs rfl
    have hl := entries_len_of_ok n hc.len hok
    obtain ⟨out, h1, h2⟩ := safeMapIndexedValues_mapSpec ix vs (encSel (-1) sel) (-1) hok
      (by rw [hl]; exact inRange_encSel n (-1) sel hsel)
    refine ⟨.indexed out.1 out.2, ?_, ?_⟩
    · simp only [safeMapColumn, hmap, hfilt, h1]
    · simp only [mapIndexedSpec, mapSpec_encSel (entries ix vs) (-1) [] sel hne] at h2
      simp only [selectCol]
      cases hs : selectCells (entries ix vs) [] sel with
      | none => simp [hs] at h2
      | some es => simp [hs] at h2; simp [← h2]

end Exetera.Merge
