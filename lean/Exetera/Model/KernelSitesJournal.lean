/-!
  C10 — access sites of the compiled journalling kernels that `Model/Journal.lean` models (owning property C17), frozen
  from the source the model was written against. `Props/C10/Journal.lean` proves that the shapes regenerated from the
  CURRENT source (`Gen/KernelShape.lean`) are these.

  Model ↔ site map:
  * `ordered_generate_journalling_indices`: `old[i]`, `new[j]` = the two `getE` of `mainBody`; `old[i + 1]` (and the
    `old[i]` next to it) occur only in the run-skipping guard `i + 1 < len(old) and old[i + 1] == old[i]` (in the
    table below): the model fuses guard and read (`skipRunFrom`: `i + 1 < old.length && old[i + 1]? == old[i]?`);
    `old_inds[joint]`, `new_inds[joint]` = the capacity check `s.ob.length < cap` of `emit` (`cap = total` of the
    counting pass; both arrays have that length).
  * `compare_rows_for_journalling`: `to_keep[i]` (read) = `getE tk i`; `old_map[i]`, `new_map[i]` = `getE`;
    `old_field[old_map[i]]`, `new_field[new_map[i]]` = `getI` in `numDiffers` (computed subscripts: `-1` would wrap);
    `to_keep[i]` (write) = `setTk` (`setE`).
  * `compare_indexed_rows_for_journalling`: `old_indices[-1]`, `new_indices[-1]` = the `getLast?` match of
    `compareIndexedRows` (`.oob "indices[-1]"` on an empty array); `old_indices[old_map[i]]`,
    `old_indices[old_map[i] + 1]`, `new_indices[…]` = `getI` in `rowBytes`; the two value slices = `slice` (clamp);
    `to_keep[i]`, `old_map[i]`, `new_map[i]` as above (`compareBody`).
  * `merge_journalled_entries`: `old_map[i]` = `getE` in `mergeBody` (the `while cur_old <= old_map[i]` test re-reads the
    same element); `old_src[cur_old]` = `getE` in `copyOldBody`; `dest[cur_dest]` = `pushD` (capacity check);
    `to_keep[i]`, `new_map[i]` = `getE`; `new_src[new_map[i]]` = `getI`.
  * `merge_indexed_journalled_entries_count`: `old_src_inds[cur_old + 1]`, `old_src_inds[cur_old]` = `getE` in
    `countOldBody`; `new_src_inds[new_map[i] + 1]`, `new_src_inds[new_map[i]]` = `getI` in `countBody`; the rest as above.
  * `merge_indexed_journalled_entries`: `dest_inds[0]` = the `capI = 0` test of `mergeIndexedEntries`;
    `dest_inds[cur_dest]` = `pushI` (capacity check); `dest_vals[ind_acc - ind_delta:ind_acc] = src[a:b]` =
    `setSliceE` ∘ `slice` (slices clamp; a size mismatch is numpy's ValueError, `.valueError` in the model);
    `old_src_inds[…]` = `getE` in `copyOldRowBody`; `new_src_inds[…]` = `getI` in `mergeIndexedBody`.
-/
namespace Exetera.KernelSites

/-- the journalling kernels (C17) -/
def journalSites : List (String × List String × List String) := [
  ("ordered_generate_journalling_indices",
    ["while i + 1 < len(old) and old[i + 1] == old[i]", "while i < len(old)", "while i < len(old) and j < len(new)", "while j < len(new)"],
    ["R new[j]", "R old[i + 1]", "R old[i]", "W new_inds[joint]", "W old_inds[joint]"]),
  ("compare_rows_for_journalling",
    ["for i in range(len(old_map))"],
    ["R new_field[new_map[i]]", "R new_map[i]", "R old_field[old_map[i]]", "R old_map[i]", "R to_keep[i]", "W to_keep[i]"]),
  ("compare_indexed_rows_for_journalling",
    ["for i in range(len(old_map))"],
    ["R new_indices[-1]", "R new_indices[new_map[i] + 1]", "R new_indices[new_map[i]]", "R new_map[i]", "R new_values[new_indices[new_map[i]]:new_indices[new_map[i] + 1]]", "R old_indices[-1]", "R old_indices[old_map[i] + 1]", "R old_indices[old_map[i]]", "R old_map[i]", "R old_values[old_indices[old_map[i]]:old_indices[old_map[i] + 1]]", "R to_keep[i]", "W to_keep[i]"]),
  ("merge_journalled_entries",
    ["for i in range(len(old_map))", "while cur_old <= old_map[i]"],
    ["R new_map[i]", "R new_src[new_map[i]]", "R old_map[i]", "R old_src[cur_old]", "R to_keep[i]", "W dest[cur_dest]"]),
  ("merge_indexed_journalled_entries_count",
    ["for i in range(len(old_map))", "while cur_old <= old_map[i]"],
    ["R new_map[i]", "R new_src_inds[new_map[i] + 1]", "R new_src_inds[new_map[i]]", "R old_map[i]", "R old_src_inds[cur_old + 1]", "R old_src_inds[cur_old]", "R to_keep[i]"]),
  ("merge_indexed_journalled_entries",
    ["for i in range(len(old_map))", "while cur_old <= old_map[i]"],
    ["R new_map[i]", "R new_src_inds[new_map[i] + 1]", "R new_src_inds[new_map[i]]", "R new_src_vals[new_src_inds[new_map[i]]:new_src_inds[new_map[i] + 1]]", "R old_map[i]", "R old_src_inds[cur_old + 1]", "R old_src_inds[cur_old]", "R old_src_vals[old_src_inds[cur_old]:old_src_inds[cur_old + 1]]", "R to_keep[i]", "W dest_inds[0]", "W dest_inds[cur_dest]", "W dest_vals[ind_acc - ind_delta:ind_acc]"])
]


end Exetera.KernelSites
