import Exetera.Lemmas.While
/-!
  Fuel lemmas for `whileE` used by C12.

  * `FuelAgree r rF`: `rF` is the same result as `r` unless `r` ran out of fuel. It composes through nested loops: a loop whose
    body is replaced by an agreeing body and whose fuel is raised agrees with the original loop (`whileE_agree`). So a run of a
    driver that did not end in `outOfFuel` is unchanged by raising the fuel of any of its loops.
  * `whileE_tighten`: a run that did not end in `outOfFuel` needs no more than `μ s + 1` iterations for any measure `μ` that every
    successful iteration strictly decreases (on states satisfying an invariant); an `.ok` run needs no more than `μ s`.
-/
namespace Exetera

/-- `rF` is `r`, unless `r` is "ran out of fuel" -/
def FuelAgree {α} (r rF : Except Err α) : Prop := r = .error .outOfFuel ∨ rF = r

theorem FuelAgree.rfl' {α} (r : Except Err α) : FuelAgree r r := Or.inr rfl

theorem FuelAgree.eq_of_ne {α} {r rF : Except Err α} (h : FuelAgree r rF) (hr : r ≠ .error .outOfFuel) : rF = r := by
  rcases h with h | h
  · exact absurd h hr
  · exact h

/-- raising the fuel of a loop and replacing its body by an agreeing one gives an agreeing loop -/
theorem whileE_agree {σ} (g : σ → Bool) (b bF : σ → Except Err σ) (hb : ∀ s, FuelAgree (b s) (bF s)) :
    ∀ (n : Nat) (s : σ) (m : Nat), n ≤ m → FuelAgree (whileE g b n s) (whileE g bF m s) := by
  intro n
  induction n with
  | zero =>
    intro s m _
    cases hg : g s with
    | true => left; simp [whileE, hg]
    | false => right; cases m <;> simp [whileE, hg]
  | succ n ih =>
    intro s m hm
    cases m with
    | zero => omega
    | succ m =>
      cases hg : g s with
      | false => right; simp [whileE, hg]
      | true =>
        rcases hb s with h | h
        · left; simp [whileE, hg, h]
        · cases hbs : b s with
          | error e => right; simp [whileE, hg, h, hbs]
          | ok s1 =>
            rcases ih s1 m (by omega) with h1 | h1
            · left; simp [whileE, hg, hbs, h1]
            · right; simp [whileE, hg, h, hbs, h1]

/-- more fuel never changes a result other than `outOfFuel` -/
theorem whileE_fuel_irrelevant {σ} (g : σ → Bool) (b : σ → Except Err σ) (n : Nat) (s : σ)
    (h : whileE g b n s ≠ .error .outOfFuel) (m : Nat) (hm : n ≤ m) : whileE g b m s = whileE g b n s :=
  (whileE_agree g b b (fun _ => Or.inr rfl) n s m hm).eq_of_ne h

/-- a run that did not run out of fuel takes at most `μ s + 1` iterations, for every measure that each successful
    iteration strictly decreases -/
theorem whileE_tighten {σ} (g : σ → Bool) (b : σ → Except Err σ) (Inv : σ → Prop) (μ : σ → Nat)
    (step : ∀ s s', Inv s → g s = true → b s = .ok s' → Inv s' ∧ μ s' < μ s) :
    ∀ (n : Nat) (s : σ), Inv s → whileE g b n s ≠ .error .outOfFuel →
      ∀ m, μ s < m → whileE g b m s = whileE g b n s := by
  intro n
  induction n with
  | zero =>
    intro s _ hr m _
    cases hg : g s with
    | true => simp [whileE, hg] at hr
    | false => cases m <;> simp [whileE, hg]
  | succ n ih =>
    intro s hI hr m hm
    cases m with
    | zero => omega
    | succ m =>
      cases hg : g s with
      | false => simp [whileE, hg]
      | true =>
        cases hbs : b s with
        | error e => simp [whileE, hg, hbs]
        | ok s1 =>
          obtain ⟨hI1, hlt⟩ := step s s1 hI hg hbs
          simp only [whileE, hg, hbs, if_true] at hr ⊢
          exact ih s1 hI1 hr m (by omega)

/-- an `.ok` run takes at most `μ s` iterations -/
theorem whileE_tighten_ok {σ} (g : σ → Bool) (b : σ → Except Err σ) (Inv : σ → Prop) (μ : σ → Nat)
    (step : ∀ s s', Inv s → g s = true → b s = .ok s' → Inv s' ∧ μ s' < μ s) :
    ∀ (n : Nat) (s s' : σ), Inv s → whileE g b n s = .ok s' → ∀ m, μ s ≤ m → whileE g b m s = .ok s' := by
  intro n
  induction n with
  | zero =>
    intro s s' _ hr m _
    cases hg : g s with
    | true => simp [whileE, hg] at hr
    | false => simp [whileE, hg] at hr; subst hr; cases m <;> simp [whileE, hg]
  | succ n ih =>
    intro s s' hI hr m hm
    cases hg : g s with
    | false => simp [whileE, hg] at hr; subst hr; cases m <;> simp [whileE, hg]
    | true =>
      cases hbs : b s with
      | error e => simp [whileE, hg, hbs] at hr
      | ok s1 =>
        obtain ⟨hI1, hlt⟩ := step s s1 hI hg hbs
        cases m with
        | zero => omega
        | succ m =>
          simp only [whileE, hg, hbs, if_true] at hr ⊢
          exact ih s1 s' hI1 hr m (by omega)

/-- the number of iterations of a finished loop, counted by any counter that each iteration bumps by one, is at most any
    measure that each iteration strictly decreases -/
theorem whileE_counter_le_measure {σ} (g : σ → Bool) (b : σ → Except Err σ) (Inv : σ → Prop) (μ c : σ → Nat)
    (step : ∀ s s', Inv s → g s = true → b s = .ok s' → Inv s' ∧ μ s' < μ s ∧ c s' = c s + 1) :
    ∀ (n : Nat) (s s' : σ), Inv s → whileE g b n s = .ok s' → c s' + μ s' ≤ c s + μ s := by
  intro n
  induction n with
  | zero =>
    intro s s' _ hr
    cases hg : g s with
    | true => simp [whileE, hg] at hr
    | false => simp [whileE, hg] at hr; subst hr; omega
  | succ n ih =>
    intro s s' hI hr
    cases hg : g s with
    | false => simp [whileE, hg] at hr; subst hr; omega
    | true =>
      cases hbs : b s with
      | error e => simp [whileE, hg, hbs] at hr
      | ok s1 =>
        obtain ⟨hI1, hlt, hc⟩ := step s s1 hI hg hbs
        simp only [whileE, hg, hbs, if_true] at hr
        have := ih s1 s' hI1 hr
        omega

end Exetera

namespace Exetera

/-- chunked loops: if every successful iteration lowers the measure by at least `c` or ends the loop, an `.ok` run needs at
    most `⌈μ s / c⌉` iterations (stated without division: any `m` with `μ s ≤ m * c`) -/
theorem whileE_tighten_scaled {σ} (g : σ → Bool) (b : σ → Except Err σ) (Inv : σ → Prop) (μ : σ → Nat) (c : Nat)
    (pos : ∀ s, Inv s → g s = true → 0 < μ s)
    (step : ∀ s s', Inv s → g s = true → b s = .ok s' → Inv s' ∧ (μ s' + c ≤ μ s ∨ g s' = false)) :
    ∀ (n : Nat) (s s' : σ), Inv s → whileE g b n s = .ok s' → ∀ m, μ s ≤ m * c → whileE g b m s = .ok s' := by
  intro n
  induction n with
  | zero =>
    intro s s' _ hr m _
    cases hg : g s with
    | true => simp [whileE, hg] at hr
    | false => simp [whileE, hg] at hr; subst hr; cases m <;> simp [whileE, hg]
  | succ n ih =>
    intro s s' hI hr m hm
    cases hg : g s with
    | false => simp [whileE, hg] at hr; subst hr; cases m <;> simp [whileE, hg]
    | true =>
      cases hbs : b s with
      | error e => simp [whileE, hg, hbs] at hr
      | ok s1 =>
        obtain ⟨hI1, hdec⟩ := step s s1 hI hg hbs
        have hp := pos s hI hg
        simp only [whileE, hg, hbs, if_true] at hr
        cases m with
        | zero => simp at hm; omega
        | succ m =>
          simp only [whileE, hg, hbs, if_true]
          rcases hdec with hd | hd
          · have hmul : (m + 1) * c = m * c + c := Nat.succ_mul _ _
            exact ih s1 s' hI1 hr m (by omega)
          · have h1 : whileE g b n s1 = .ok s1 := by cases n <;> simp [whileE, hd]
            rw [h1] at hr
            cases hr
            cases m <;> simp [whileE, hd]

end Exetera

namespace Exetera

/-- partial-correctness rule: what every successful iteration preserves holds of the final state of an `.ok` run -/
theorem whileE_invariant {σ} (g : σ → Bool) (b : σ → Except Err σ) (P : σ → Prop)
    (step : ∀ s s', P s → g s = true → b s = .ok s' → P s') :
    ∀ (n : Nat) (s s' : σ), P s → whileE g b n s = .ok s' → P s' := by
  intro n
  induction n with
  | zero =>
    intro s s' hP hr
    cases hg : g s with
    | true => simp [whileE, hg] at hr
    | false => simp [whileE, hg] at hr; subst hr; exact hP
  | succ n ih =>
    intro s s' hP hr
    cases hg : g s with
    | false => simp [whileE, hg] at hr; subst hr; exact hP
    | true =>
      cases hbs : b s with
      | error e => simp [whileE, hg, hbs] at hr
      | ok s1 =>
        simp only [whileE, hg, hbs, if_true] at hr
        exact ih s1 s' (step s s1 hP hg hbs) hr

end Exetera

namespace Exetera

/-- a state that the body maps to itself with the guard true is never left: no fuel suffices -/
theorem whileE_fixpoint {σ} (g : σ → Bool) (b : σ → Except Err σ) (s : σ) (hg : g s = true) (hb : b s = .ok s) :
    ∀ n, whileE g b n s = .error .outOfFuel := by
  intro n
  induction n with
  | zero => simp [whileE, hg]
  | succ n ih => simp [whileE, hg, hb, ih]

end Exetera

namespace Exetera

/-- two bodies that agree on the states of an invariant the first one preserves give the same loop -/
theorem whileE_congr_inv {σ} (g : σ → Bool) (b b' : σ → Except Err σ) (Inv : σ → Prop)
    (heq : ∀ s, Inv s → g s = true → b' s = b s)
    (hpres : ∀ s s', Inv s → g s = true → b s = .ok s' → Inv s') :
    ∀ (n : Nat) (s : σ), Inv s → whileE g b' n s = whileE g b n s := by
  intro n
  induction n with
  | zero => intro s _; simp [whileE]
  | succ n ih =>
    intro s hI
    cases hg : g s with
    | false => simp [whileE, hg]
    | true =>
      simp only [whileE, hg, if_true, heq s hI hg]
      cases hb : b s with
      | error e => rfl
      | ok s1 => exact ih s1 (hpres s s1 hI hg hb)

end Exetera
