import Exetera.Lemmas.FilterIndexField
/-! Frame level: the column loops of DataFrame.apply_filter / apply_index against `Spec.mapCols`, and the store. -/
namespace Exetera.FilterIndex
open Exetera Exetera.Spec

/-- the frame `fr` holds the columns `cols`: same names in the same order, same metadata, each payload stores the content -/
def Holds : Frame → List (ColSpec Meta) → Prop
  | [], [] => True
  | (n, f) :: fr, c :: cs => n = c.name ∧ f.info = c.info ∧ Encodes f.payload c.content ∧ Holds fr cs
  | _, _ => False

def AllWriteable (fr : Frame) : Prop := ∀ p ∈ fr, p.2.writeEnabled = true

/-- the column names of `sf` are distinct (dictionary keys) and none of them exists in `df` -/
def Fresh (sf df : Frame) : Prop := (sf.map (·.1)).Nodup ∧ ∀ p ∈ sf, df.has p.1 = false

/-- what the frame loops need to know about a per-field operation `op` implementing the row operation `g`
    (the loops call it either as `op f None True` or as `op f target False`) -/
structure OpSpec (op : Field → Option Field → Bool → Except Err Field) (g : Column → Option Column) : Prop where
  ok : ∀ f c c', Encodes f.payload c → g c = some c' →
    ∃ res, Encodes res c' ∧ (f.writeEnabled = true → op f none true = .ok { f with payload := res }) ∧
      (∀ t, op f (some t) false = .ok { t with payload := res })
  err : ∀ f c, Encodes f.payload c → g c = none →
    ∃ e, op f none true = .error e ∧ ∀ t, op f (some t) false = .error e

theorem opSpec_filter (bs : List Bool) :
    OpSpec (fun f t ip => applyFilterField .repaired f (.bool bs) t ip) (Column.filter bs) where
  ok := by
    intro f c c' he hc
    obtain ⟨res, hr, henc⟩ := filterPayload_spec .repaired f.payload c c' bs he hc
    refine ⟨res, henc, ?_, ?_⟩
    · intro hw
      simp [applyFilterField, validateFilter, hr, storeResult_inPlace f res hw, bind, Except.bind]
    · intro t
      simp [applyFilterField, validateFilter, hr, storeResult_target f t res, bind, Except.bind]
  err := by
    intro f c he hc
    obtain ⟨site, hs⟩ := filterPayload_err f.payload c bs he hc
    refine ⟨.oob site, ?_, ?_⟩
    · simp [applyFilterField, validateFilter, hs, bind, Except.bind]
    · intro t
      simp [applyFilterField, validateFilter, hs, bind, Except.bind]

theorem opSpec_index (idx : List Int) :
    OpSpec (fun f t ip => applyIndexField .repaired f idx t ip) (Column.gather idx) where
  ok := by
    intro f c c' he hc
    obtain ⟨res, hr, henc⟩ := indexPayload_spec .repaired f.payload c c' idx he hc
    refine ⟨res, henc, ?_, ?_⟩
    · intro hw
      simp [applyIndexField, hr, storeResult_inPlace f res hw, bind, Except.bind]
    · intro t
      simp [applyIndexField, hr, storeResult_target f t res, bind, Except.bind]
  err := by
    intro f c he hc
    obtain ⟨site, hs⟩ := indexPayload_err f.payload c idx he hc
    refine ⟨.oob site, ?_, ?_⟩
    · simp [applyIndexField, hs, bind, Except.bind]
    · intro t
      simp [applyIndexField, hs, bind, Except.bind]

/-! ### the two column loops -/

theorem colsInPlace_holds {op g} (hop : OpSpec op g) (sf : Frame) (cols cols' : List (ColSpec Meta))
    (hh : Holds sf cols) (hw : AllWriteable sf) (hm : mapCols g cols = some cols') :
    ∃ rf, colsInPlace op sf = .ok rf ∧ Holds rf cols' ∧ AllWriteable rf := by
  induction sf generalizing cols cols' with
  | nil =>
    cases cols with
    | nil => simp [mapCols] at hm; subst hm; exact ⟨[], rfl, trivial, by intro p hp; simp at hp⟩
    | cons c cs => simp [Holds] at hh
  | cons p sf ih =>
    obtain ⟨n, f⟩ := p
    cases cols with
    | nil => simp [Holds] at hh
    | cons c cs =>
      obtain ⟨hn, hi, he, hrest⟩ := hh
      simp only [mapCols] at hm
      split at hm
      · rename_i x r hx hr
        simp at hm; subst hm
        obtain ⟨res, henc, hin, _⟩ := hop.ok f c.content x he hx
        have hwf : f.writeEnabled = true := hw (n, f) (by simp)
        obtain ⟨rf, hrf, hholds, hwr⟩ := ih cs r hrest (fun q hq => hw q (by simp [hq])) hr
        refine ⟨(n, { f with payload := res }) :: rf, ?_, ⟨hn, hi, henc, hholds⟩, ?_⟩
        · simp only [colsInPlace, hin hwf, hrf]
        · intro q hq
          rcases List.mem_cons.mp hq with rfl | hq
          · exact hwf
          · exact hwr q hq
      · simp at hm

theorem has_append (df : Frame) (q : String × Field) (name : String) :
    Frame.has (df ++ [q]) name = (df.has name || q.1 == name) := by
  simp [Frame.has, List.any_append]

theorem colsTo_holds {op g} (hop : OpSpec op g) (sf df : Frame) (cols cols' : List (ColSpec Meta))
    (hh : Holds sf cols) (hf : Fresh sf df) (hm : mapCols g cols = some cols') :
    ∃ rf, colsTo op sf df = .ok (df ++ rf) ∧ Holds rf cols' ∧ AllWriteable rf := by
  induction sf generalizing df cols cols' with
  | nil =>
    cases cols with
    | nil =>
      simp [mapCols] at hm; subst hm
      exact ⟨[], by simp [colsTo], trivial, by intro p hp; simp at hp⟩
    | cons c cs => simp [Holds] at hh
  | cons p sf ih =>
    obtain ⟨n, f⟩ := p
    cases cols with
    | nil => simp [Holds] at hh
    | cons c cs =>
      obtain ⟨hn, hi, he, hrest⟩ := hh
      obtain ⟨hnd, hfresh⟩ := hf
      simp only [mapCols] at hm
      split at hm
      · rename_i x r hx hr
        simp at hm; subst hm
        obtain ⟨res, henc, _, hto⟩ := hop.ok f c.content x he hx
        have hcl : createLike df n f = .ok (emptyLike f) := by
          simp [createLike, hfresh (n, f) (by simp)]
        let w : Field := { emptyLike f with payload := res }
        have hnd' : (sf.map (·.1)).Nodup ∧ n ∉ sf.map (·.1) := by
          simp only [List.map_cons, List.nodup_cons] at hnd
          exact ⟨hnd.2, hnd.1⟩
        have hf' : Fresh sf (df ++ [(n, w)]) := by
          refine ⟨hnd'.1, ?_⟩
          intro q hq
          rw [has_append]
          have h1 := hfresh q (by simp [hq])
          have h2 : (n == q.1) = false := by
            rw [beq_eq_false_iff_ne]
            intro h
            exact hnd'.2 (by rw [h]; exact List.mem_map_of_mem hq)
          simp [h1, h2]
        obtain ⟨rf, hrf, hholds, hwr⟩ := ih (df ++ [(n, w)]) cs r hrest hf' hr
        refine ⟨(n, w) :: rf, ?_, ⟨hn, ?_, henc, hholds⟩, ?_⟩
        · simp only [colsTo, hcl, hto (emptyLike f)]
          show colsTo op sf (df ++ [(n, w)]) = _
          rw [hrf]; simp
        · simp [w, emptyLike, hi]
        · intro q hq
          rcases List.mem_cons.mp hq with rfl | hq
          · rfl
          · exact hwr q hq
      · simp at hm

theorem colsInPlace_reject {op g} (hop : OpSpec op g) (sf : Frame) (cols : List (ColSpec Meta))
    (hh : Holds sf cols) (hm : mapCols g cols = none) : ∃ e, colsInPlace op sf = .error e := by
  induction sf generalizing cols with
  | nil =>
    cases cols with
    | nil => simp [mapCols] at hm
    | cons c cs => simp [Holds] at hh
  | cons p sf ih =>
    obtain ⟨n, f⟩ := p
    cases cols with
    | nil => simp [Holds] at hh
    | cons c cs =>
      obtain ⟨_, _, he, hrest⟩ := hh
      cases hx : g c.content with
      | none =>
        obtain ⟨e, h1, _⟩ := hop.err f c.content he hx
        exact ⟨e, by simp only [colsInPlace, h1]⟩
      | some x =>
        have hr : mapCols g cs = none := by
          cases hcs : mapCols g cs with
          | none => rfl
          | some r => simp [mapCols, hx, hcs] at hm
        obtain ⟨e, h2⟩ := ih cs hrest hr
        cases h1 : op f none true with
        | error e' => exact ⟨e', by simp only [colsInPlace, h1]⟩
        | ok w => exact ⟨e, by simp only [colsInPlace, h1, h2]⟩

theorem colsTo_reject {op g} (hop : OpSpec op g) (sf df : Frame) (cols : List (ColSpec Meta))
    (hh : Holds sf cols) (hm : mapCols g cols = none) : ∃ e, colsTo op sf df = .error e := by
  induction sf generalizing df cols with
  | nil =>
    cases cols with
    | nil => simp [mapCols] at hm
    | cons c cs => simp [Holds] at hh
  | cons p sf ih =>
    obtain ⟨n, f⟩ := p
    cases cols with
    | nil => simp [Holds] at hh
    | cons c cs =>
      obtain ⟨_, _, he, hrest⟩ := hh
      cases hcl : createLike df n f with
      | error e' => exact ⟨e', by simp only [colsTo, hcl]⟩
      | ok nf =>
        cases hx : g c.content with
        | none =>
          obtain ⟨e, _, h1⟩ := hop.err f c.content he hx
          exact ⟨e, by simp only [colsTo, hcl, h1 nf]⟩
        | some x =>
          have hr : mapCols g cs = none := by
            cases hcs : mapCols g cs with
            | none => rfl
            | some r => simp [mapCols, hx, hcs] at hm
          cases h1 : op f (some nf) false with
          | error e' => exact ⟨e', by simp only [colsTo, hcl, h1]⟩
          | ok w =>
            obtain ⟨e, h2⟩ := ih (df ++ [(n, w)]) cs hrest hr
            exact ⟨e, by simp only [colsTo, hcl, h1, h2]⟩

/-! ### the store -/

theorem lookup_put_ne (st : Store) (k k' : String) (f : Frame) (h : k' ≠ k) :
    (st.put k f).lookup k' = st.lookup k' := by
  induction st with
  | nil => rfl
  | cons p st ih =>
    obtain ⟨a, b⟩ := p
    simp only [Store.put, List.map_cons] at ih ⊢
    by_cases hak : a = k
    · subst hak
      have h1 : (k' == a) = false := by rw [beq_eq_false_iff_ne]; exact h
      rw [if_pos (by simp), List.lookup_cons, List.lookup_cons, h1]; exact ih
    · have h0 : ¬ ((a == k) = true) := by simpa using hak
      rw [if_neg h0, List.lookup_cons, List.lookup_cons]
      cases (k' == a)
      · exact ih
      · rfl

theorem lookup_put_same (st : Store) (k : String) (f x : Frame) (h : st.lookup k = some x) :
    (st.put k f).lookup k = some f := by
  induction st with
  | nil => simp at h
  | cons p st ih =>
    obtain ⟨a, b⟩ := p
    simp only [Store.put, List.map_cons] at ih ⊢
    by_cases hak : a = k
    · subst hak
      rw [if_pos (by simp), List.lookup_cons]; simp
    · have h0 : ¬ ((a == k) = true) := by simpa using hak
      have h2 : (k == a) = false := by rw [beq_eq_false_iff_ne]; exact fun h => hak h.symm
      rw [List.lookup_cons, h2] at h
      rw [if_neg h0, List.lookup_cons, h2]
      exact ih h

theorem Store.frame_eq (st : Store) (k : String) (f : Frame) (h : st.lookup k = some f) : st.frame k = .ok f := by
  simp [Store.frame, h]

/-- whatever a frame operation does, it writes only the frame it was told to write -/
theorem frameOp_untouched (st st' : Store) (src : String) (ddf : Option String) op
    (h : frameOp st src ddf op = .ok st') (k : String) (hk : k ≠ ddf.getD src) : st'.lookup k = st.lookup k := by
  unfold frameOp at h
  cases hs : st.frame src with
  | error e => simp [hs, bind, Except.bind] at h
  | ok sf =>
    cases ddf with
    | none =>
      simp only [hs, bind, Except.bind] at h
      cases hc : colsInPlace op sf with
      | error e => simp [hc] at h
      | ok r =>
        simp [hc, pure, Except.pure] at h; subst h
        exact lookup_put_ne st src k r (by simpa using hk)
    | some d =>
      simp only [hs, bind, Except.bind] at h
      cases hd : st.frame d with
      | error e => simp [hd] at h
      | ok df =>
        simp only [hd] at h
        cases hc : colsTo op sf df with
        | error e => simp [hc] at h
        | ok r =>
          simp [hc, pure, Except.pure] at h; subst h
          exact lookup_put_ne st d k r (by simpa using hk)

theorem frameOp_inPlace {op g} (hop : OpSpec op g) (st : Store) (src : String) (sf : Frame)
    (cols cols' : List (ColSpec Meta)) (hs : st.lookup src = some sf)
    (hh : Holds sf cols) (hw : AllWriteable sf) (hm : mapCols g cols = some cols') :
    ∃ rf, frameOp st src none op = .ok (st.put src rf) ∧ Holds rf cols' ∧ AllWriteable rf := by
  obtain ⟨rf, hrf, hholds, hwr⟩ := colsInPlace_holds hop sf cols cols' hh hw hm
  exact ⟨rf, by simp [frameOp, Store.frame_eq st src sf hs, hrf, bind, Except.bind, pure, Except.pure], hholds, hwr⟩

theorem frameOp_into {op g} (hop : OpSpec op g) (st : Store) (src d : String) (sf df : Frame)
    (cols cols' : List (ColSpec Meta)) (hs : st.lookup src = some sf) (hd : st.lookup d = some df)
    (hh : Holds sf cols) (hf : Fresh sf df) (hm : mapCols g cols = some cols') :
    ∃ rf, frameOp st src (some d) op = .ok (st.put d (df ++ rf)) ∧ Holds rf cols' ∧ AllWriteable rf := by
  obtain ⟨rf, hrf, hholds, hwr⟩ := colsTo_holds hop sf df cols cols' hh hf hm
  exact ⟨rf, by simp [frameOp, Store.frame_eq st src sf hs, Store.frame_eq st d df hd, hrf, bind, Except.bind,
    pure, Except.pure], hholds, hwr⟩

theorem frameOp_reject {op g} (hop : OpSpec op g) (st : Store) (src : String) (ddf : Option String) (sf : Frame)
    (cols : List (ColSpec Meta)) (hs : st.lookup src = some sf) (hh : Holds sf cols) (hm : mapCols g cols = none) :
    ∃ e, frameOp st src ddf op = .error e := by
  cases ddf with
  | none =>
    obtain ⟨e, he⟩ := colsInPlace_reject hop sf cols hh hm
    exact ⟨e, by simp [frameOp, Store.frame_eq st src sf hs, he, bind, Except.bind]⟩
  | some d =>
    cases hd : st.frame d with
    | error e => exact ⟨e, by simp [frameOp, Store.frame_eq st src sf hs, hd, bind, Except.bind]⟩
    | ok df =>
      obtain ⟨e, he⟩ := colsTo_reject hop sf df cols hh hm
      exact ⟨e, by simp [frameOp, Store.frame_eq st src sf hs, hd, he, bind, Except.bind]⟩

end Exetera.FilterIndex
