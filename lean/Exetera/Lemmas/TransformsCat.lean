import Exetera.Lemmas.TransformsBasic
/-! C06: `keyEq`, `scanKeys` over `packTable`, `matchRow`, `categoricalTransform` against the whole-cell lookup. -/
namespace Exetera.Transforms
open Exetera Exetera.Spec.Transforms

/-- the `j` loop decides equality of the two byte ranges, and never reads outside them -/
theorem keyEq_spec (vals keys : Bytes) (n p q : Nat) (hp : p + n ≤ vals.length) (hq : q + n ≤ keys.length) :
    keyEq vals keys n p q = .ok (decide (slice vals p (p + n) = slice keys q (q + n))) := by
  induction n generalizing p q with
  | zero => simp [keyEq, slice_nil_of_eq]
  | succ n ih =>
    have hp' : p < vals.length := by omega
    have hq' : q < keys.length := by omega
    rw [keyEq, getE_of_lt _ hp', getE_of_lt _ hq']
    simp only
    rw [slice_succ vals p n hp', slice_succ keys q n hq']
    by_cases hab : vals[p] = keys[q]
    · have : (vals[p] != keys[q]) = false := by simp [hab]
      rw [this]
      simp only [Bool.false_eq_true, if_false]
      rw [ih (p + 1) (q + 1) (by omega) (by omega)]
      simp [hab]
    · have : (vals[p] != keys[q]) = true := by simp [hab]
      rw [this]
      simp [hab]

/-- last entry of the table whose key is the cell (what a scan without `break` leaves behind) -/
def lastMatch (cell : Bytes) : List (Bytes × Int) → Option Int → Option Int
  | [], acc => acc
  | kv :: rest, acc => lastMatch cell rest (if kv.1 = cell then some kv.2 else acc)

theorem packTable_index (tbl : List (Bytes × Int)) (i : Nat) (h : i ≤ tbl.length) :
    (packTable tbl).index[i]? = some (((tbl.take i).map (·.1.length)).sum) := by
  simp only [packTable]
  rw [offsets_getElem? 0 _ i (by simpa using h)]
  simp [List.map_take]

theorem packTable_index_length (tbl : List (Bytes × Int)) : (packTable tbl).index.length = tbl.length + 1 := by
  simp [packTable, offsets_length]

theorem flatten_length_eq_sum (l : List Bytes) : l.flatten.length = (l.map List.length).sum := by
  induction l with
  | nil => rfl
  | cons a l ih => simp [ih]

theorem packTable_keys_split (pre : List (Bytes × Int)) (kv : Bytes × Int) (post : List (Bytes × Int)) :
    (packTable (pre ++ kv :: post)).keys = (pre.map (·.1)).flatten ++ kv.1 ++ (post.map (·.1)).flatten := by
  simp [packTable]

/-- scanning the entries `post` of `pre ++ post`, starting at entry `pre.length` -/
theorem scanKeys_spec (pre post : List (Bytes × Int)) (vals : Bytes) (p : Nat) (cell : Bytes)
    (hcell : p + cell.length ≤ vals.length) (hsl : slice vals p (p + cell.length) = cell) (acc : Option Int) :
    scanKeys (packTable (pre ++ post)) vals p (cell.length : Int) post.length pre.length acc
      = .ok (lastMatch cell post acc) := by
  induction post generalizing pre acc with
  | nil => simp [scanKeys, lastMatch]
  | cons kv post ih =>
    have hlen : (pre ++ kv :: post).length = pre.length + (post.length + 1) := by simp
    have hi1 := packTable_index (pre ++ kv :: post) (pre.length + 1) (by omega)
    have hi0 := packTable_index (pre ++ kv :: post) pre.length (by omega)
    have t1 : (pre ++ kv :: post).take (pre.length + 1) = pre ++ [kv] := by
      rw [List.take_append]; simp [List.take_of_length_le]
    have t0 : (pre ++ kv :: post).take pre.length = pre := by simp
    rw [t1] at hi1
    rw [t0] at hi0
    simp only [List.map_append, List.map_cons, List.map_nil, List.sum_append, List.sum_cons, List.sum_nil,
      Nat.add_zero] at hi1
    simp only [List.length_cons]
    rw [scanKeys]
    simp only [getE, hi1, hi0]
    have next : pre ++ kv :: post = (pre ++ [kv]) ++ post := by simp
    by_cases hl : cell.length = kv.1.length
    · -- same length: the byte comparison decides
      have hne : ((cell.length : Int) != (((pre.map (·.1.length)).sum + kv.1.length : Nat) : Int) - ((pre.map (·.1.length)).sum : Nat)) = false := by
        simp; omega
      rw [hne]
      simp only [Bool.false_eq_true, if_false, Int.toNat_natCast]
      have hk : (packTable (pre ++ kv :: post)).keys = (pre.map (·.1)).flatten ++ kv.1 ++ (post.map (·.1)).flatten :=
        packTable_keys_split pre kv post
      have hq : (pre.map (·.1.length)).sum + cell.length ≤ (packTable (pre ++ kv :: post)).keys.length := by
        rw [hk]; simp only [List.length_append, flatten_length_eq_sum, List.map_map]
        have : (List.map (List.length ∘ fun x => x.1) pre).sum = (pre.map (·.1.length)).sum := rfl
        omega
      rw [keyEq_spec vals _ cell.length p _ hcell hq, hsl]
      have hks : slice (packTable (pre ++ kv :: post)).keys (pre.map (·.1.length)).sum ((pre.map (·.1.length)).sum + cell.length) = kv.1 := by
        rw [hk, hl]
        have e : (pre.map (·.1.length)).sum = ((pre.map (·.1)).flatten).length := by
          rw [flatten_length_eq_sum]; simp [List.map_map]; rfl
        rw [e]
        exact slice_append_mid _ _ _
      rw [hks]
      by_cases hc : cell = kv.1
      · have hv : (packTable (pre ++ kv :: post)).values[pre.length]? = some kv.2 := by simp [packTable]
        simp only [hc, decide_true, hv]
        have := ih (pre ++ [kv]) (some kv.2)
        simp only [List.length_append, List.length_cons, List.length_nil, ← next] at this
        rw [hc] at this
        rw [this, lastMatch]; simp
      · have hd : decide (cell = kv.1) = false := by simp [hc]
        simp only [hd]
        have := ih (pre ++ [kv]) acc
        simp only [List.length_append, List.length_cons, List.length_nil, ← next] at this
        rw [this, lastMatch]
        have : ¬ kv.1 = cell := fun h => hc h.symm
        simp [this]
    · have hne : ((cell.length : Int) != (((pre.map (·.1.length)).sum + kv.1.length : Nat) : Int) - ((pre.map (·.1.length)).sum : Nat)) = true := by
        simp; omega
      rw [hne]
      simp only [if_true]
      have := ih (pre ++ [kv]) acc
      simp only [List.length_append, List.length_cons, List.length_nil, ← next] at this
      rw [this, lastMatch]
      have : ¬ kv.1 = cell := fun h => hl (by rw [h])
      simp [this]

/-- one row of a well-formed chunk against a packed table -/
theorem matchRow_spec (tbl : List (Bytes × Int)) (c : Chunk) (i s : Nat) (cell : Bytes) (rest : List Bytes)
    (h : EncFrom c i s (cell :: rest)) :
    matchRow (packTable tbl) c i = .ok (s, s + cell.length, lastMatch cell tbl none) := by
  have h0 := h.start
  have h1 := h.next
  obtain ⟨_, hlen, hsl, _⟩ := h
  simp only [matchRow, getE, h0, h1]
  have e : ((s + cell.length : Nat) : Int) - (s : Int) = (cell.length : Int) := by omega
  rw [e, packTable_index_length]
  have := scanKeys_spec [] tbl c.vals (c.off + s) cell hlen hsl none
  simp only [List.nil_append, List.length_nil] at this
  simp only [Nat.add_sub_cancel, this]

end Exetera.Transforms
