import Exetera.Model.Join
/-! Chunk fetching: every chunk handed to a kernel is a non-empty window of the column at the right offset, and a trimmed
    chunk ends at a run boundary (or at the end of the column). Holds for every chunk size ≥ 1 thanks to the widening loop. -/
namespace Exetera.Join
open Exetera

theorem slice_getElem? {α} (xs : List α) (a b i : Nat) (h : i < b - a) : (slice xs a b)[i]? = xs[a + i]? := by
  simp [slice, List.getElem?_take, h, List.getElem?_drop]

theorem countBackFrom_le (a : List Int) : ∀ v, countBackFrom a v ≤ v
  | 0 => by simp [countBackFrom]
  | v + 1 => by
    simp only [countBackFrom]
    split
    · omega
    · have := countBackFrom_le a v; omega

theorem countBackFrom_pos (a : List Int) : ∀ v, 0 < countBackFrom a v →
    a[countBackFrom a v - 1]? ≠ a[countBackFrom a v]?
  | 0 => by simp [countBackFrom]
  | v + 1 => by
    simp only [countBackFrom]
    split
    · rename_i h; intro _; simpa using h
    · exact countBackFrom_pos a v

theorem countBack_lt (a : List Int) (h : 0 < countBack a) : countBack a < a.length := by
  unfold countBack at *
  have := countBackFrom_le a (a.length - 1)
  omega

theorem countBack_boundary (a : List Int) (h : 0 < countBack a) : a[countBack a - 1]? ≠ a[countBack a]? :=
  countBackFrom_pos a _ h

/-- what the drivers rely on about a chunk of the column `xs` -/
structure ChunkOK (xs : List Int) (c : Chunk) : Prop where
  lo_le : c.lo ≤ c.hi
  hi_le : c.hi ≤ xs.length
  nonempty : c.lo < xs.length → c.lo < c.hi
  get : ∀ i, i < c.hi - c.lo → c.data[i]? = xs[c.lo + i]?
  len : c.data.length ≤ xs.length - c.lo

/-- a trimmed chunk ends where a run of equal keys ends -/
def Boundary (xs : List Int) (c : Chunk) : Prop := c.hi = xs.length ∨ xs[c.hi - 1]? ≠ xs[c.hi]?

theorem nextChunk_fst (cur len d : Nat) : (nextChunk cur len d).1 = cur := by
  unfold nextChunk; split <;> rfl

theorem nextChunk_snd_le (cur len d : Nat) (h : cur ≤ len) : (nextChunk cur len d).2 ≤ len := by
  unfold nextChunk; split <;> simp <;> omega

theorem nextChunk_snd_ge (cur len d : Nat) (h : cur ≤ len) : cur ≤ (nextChunk cur len d).2 := by
  unfold nextChunk; split <;> simp <;> omega

theorem nextChunk_snd_gt (cur len d : Nat) (h : cur < len) (hd : 0 < d) : cur < (nextChunk cur len d).2 := by
  unfold nextChunk; split <;> simp <;> omega

theorem nextChunk_snd_eq (cur len d : Nat) (h : cur ≤ len) :
    (nextChunk cur len d).2 = len ∨ (nextChunk cur len d).2 = cur + d ∧ cur + d < len := by
  unfold nextChunk; split <;> simp <;> omega

theorem untrimmed_ok (xs : List Int) (start cs : Nat) (hcs : 0 < cs) (hs : start ≤ xs.length) :
    (getUntrimmedChunk xs start cs).lo = start ∧ ChunkOK xs (getUntrimmedChunk xs start cs) := by
  have h1 := nextChunk_fst start xs.length cs
  have h2 := nextChunk_snd_le start xs.length cs hs
  have h3 := nextChunk_snd_ge start xs.length cs hs
  refine ⟨by simp [getUntrimmedChunk, h1], ?_⟩
  constructor
  · simp only [getUntrimmedChunk, h1]; exact h3
  · simp only [getUntrimmedChunk]; exact h2
  · intro hlt; simp only [getUntrimmedChunk, h1] at *; exact nextChunk_snd_gt _ _ _ hlt hcs
  · intro i hi; simp only [getUntrimmedChunk, h1] at *; exact slice_getElem? xs _ _ i hi
  · simp only [getUntrimmedChunk, h1, slice_length]; omega

/-- the trimmed window `[lo, lo+t)` cut out of the read window `[lo, hi)` at a `count_back` position `t > 0` -/
theorem trimmed_ok (xs : List Int) (lo hi : Nat) (hlo : lo ≤ hi) (hhi : hi ≤ xs.length)
    (ht : 0 < countBack (slice xs lo hi)) :
    ChunkOK xs ⟨lo, lo + countBack (slice xs lo hi), slice xs lo hi⟩ ∧
    Boundary xs ⟨lo, lo + countBack (slice xs lo hi), slice xs lo hi⟩ := by
  have hlt := countBack_lt _ ht
  have hb := countBack_boundary _ ht
  simp only [slice_length] at hlt
  have hlen : (slice xs lo hi).length = hi - lo := by simp only [slice_length]; omega
  refine ⟨⟨by simp, by simp only; omega, fun _ => by simp only; omega, ?_, by simp only [slice_length]; omega⟩, ?_⟩
  · intro i hi'; simp only at hi'; exact slice_getElem? xs lo hi i (by omega)
  · right
    simp only
    rw [slice_getElem? xs lo hi _ (by omega), slice_getElem? xs lo hi _ (by omega)] at hb
    have e1 : lo + (countBack (slice xs lo hi) - 1) = lo + countBack (slice xs lo hi) - 1 := by omega
    rw [e1] at hb
    exact hb

/-- the chunk that ends the column -/
theorem final_ok (xs : List Int) (start : Nat) (hs : start ≤ xs.length) :
    ChunkOK xs ⟨start, xs.length, slice xs start xs.length⟩ ∧ Boundary xs ⟨start, xs.length, slice xs start xs.length⟩ := by
  refine ⟨⟨hs, Nat.le_refl _, fun h => h, ?_, by simp only [slice_length]; omega⟩, Or.inl rfl⟩
  intro i hi; exact slice_getElem? xs _ _ i hi

theorem growChunk_ok (xs : List Int) (start : Nat) (hs : start ≤ xs.length) :
    ∀ (f cs : Nat), 0 < cs → xs.length ≤ start + cs * 2 ^ (f + 1) →
      ∃ c, growChunk xs start (f + 1) cs = .ok c ∧ c.lo = start ∧ ChunkOK xs c ∧ Boundary xs c := by
  intro f
  induction f with
  | zero =>
    intro cs hcs h
    have h1 := nextChunk_fst start xs.length (cs * 2)
    have h2 : (nextChunk start xs.length (cs * 2)).2 = xs.length := by
      unfold nextChunk; split <;> simp <;> omega
    simp only [growChunk, h1, h2, beq_self_eq_true, if_true]
    exact ⟨_, rfl, rfl, final_ok xs start hs⟩
  | succ f ih =>
    intro cs hcs h
    have h1 := nextChunk_fst start xs.length (cs * 2)
    rcases nextChunk_snd_eq start xs.length (cs * 2) hs with h2 | ⟨h2, h3⟩
    · simp only [growChunk, h1, h2, beq_self_eq_true, if_true]
      exact ⟨_, rfl, rfl, final_ok xs start hs⟩
    · rw [growChunk]
      simp only [h1, h2]
      have hne : (start + cs * 2 == xs.length) = false := by simp; omega
      simp only [hne]
      by_cases ht : countBack (slice xs start (start + cs * 2)) = 0
      · simp only [ht, beq_self_eq_true, if_true]
        apply ih (cs * 2) (by omega)
        have : cs * 2 * 2 ^ (f + 1) = cs * 2 ^ (f + 1 + 1) := by
          rw [Nat.pow_succ 2 (f + 1), Nat.mul_assoc, Nat.mul_comm 2]
        omega
      · have hne2 : (countBack (slice xs start (start + cs * 2)) == 0) = false := by simpa using ht
        simp only [hne2]
        have := trimmed_ok xs start (start + cs * 2) (by omega) (by omega) (by omega)
        exact ⟨_, rfl, rfl, this⟩

theorem getNextChunk_ok (xs : List Int) (start cs : Nat) (hcs : 0 < cs) (hs : start ≤ xs.length) :
    ∃ c, getNextChunk xs start cs = .ok c ∧ c.lo = start ∧ ChunkOK xs c ∧ Boundary xs c := by
  have h1 := nextChunk_fst start xs.length cs
  rcases nextChunk_snd_eq start xs.length cs hs with h2 | ⟨h2, h3⟩
  · simp only [getNextChunk, h1, h2, bne_self_eq_false]
    exact ⟨_, rfl, rfl, final_ok xs start hs⟩
  · have hne : (start + cs != xs.length) = true := by simp; omega
    simp only [getNextChunk, h1, h2, hne, if_true]
    by_cases ht : countBack (slice xs start (start + cs)) = 0
    · simp only [ht, beq_self_eq_true, if_true]
      apply growChunk_ok xs start hs xs.length cs hcs
      have h2p : xs.length < 2 ^ (xs.length + 1) := Nat.lt_of_lt_of_le (Nat.lt_two_pow_self) (Nat.pow_le_pow_right (by omega) (by omega))
      have : 2 ^ (xs.length + 1) ≤ cs * 2 ^ (xs.length + 1) := Nat.le_mul_of_pos_left _ hcs
      omega
    · have hne2 : (countBack (slice xs start (start + cs)) == 0) = false := by simpa using ht
      simp only [hne2]
      have := trimmed_ok xs start (start + cs) (by omega) (by omega) (by omega)
      exact ⟨_, rfl, rfl, this⟩

theorem fetchChunk_ok (trim : Bool) (xs : List Int) (start cs : Nat) (hcs : 0 < cs) (hs : start ≤ xs.length) :
    ∃ c, fetchChunk trim xs start cs = .ok c ∧ c.lo = start ∧ ChunkOK xs c ∧ (trim = true → Boundary xs c) := by
  cases trim with
  | true =>
    obtain ⟨c, h1, h2, h3, h4⟩ := getNextChunk_ok xs start cs hcs hs
    exact ⟨c, by simp [fetchChunk, h1], h2, h3, fun _ => h4⟩
  | false =>
    obtain ⟨h2, h3⟩ := untrimmed_ok xs start cs hcs hs
    exact ⟨_, by simp [fetchChunk], h2, h3, by simp⟩

end Exetera.Join
