/-! Specification of C04: mapping a source column through a join map.

    Row `r` of the destination is the source value at `map[r]`, or the type's empty value where `map[r]` is the
    marker `inv` the caller designates. For an indexed-string source the "values" are the entries (byte strings) and
    the destination is re-encoded as offsets + concatenated bytes. -/
namespace Exetera.Spec

/-- one destination row: `none` when the map entry is neither the marker nor a row number of the source -/
def lookup {α} (src : List α) (inv : Int) (empty : α) (k : Int) : Option α :=
  if k = inv then some empty else if 0 ≤ k then src[k.toNat]? else none

/-- the mapped column; `none` when some entry points outside the source -/
def mapSpec {α} (src : List α) (inv : Int) (empty : α) : List Int → Option (List α)
  | [] => some []
  | k :: ks =>
    match lookup src inv empty k, mapSpec src inv empty ks with
    | some v, some vs => some (v :: vs)
    | _, _ => none

/-- every entry of the map is the marker or a row number of a source with `n` rows -/
def InRange (n : Nat) (m : List Int) (inv : Int) : Prop :=
  ∀ (i : Nat) (k : Int), m[i]? = some k → k ≠ inv → 0 ≤ k ∧ k < n

/-- the valid (non-marker) entries are non-decreasing; markers may be anywhere -/
def ValidMonotone (m : List Int) (inv : Int) : Prop :=
  ∀ (i j : Nat) (a b : Int), i ≤ j → m[i]? = some a → m[j]? = some b → a ≠ inv → b ≠ inv → a ≤ b

/-- the markers `DataFrame.merge` and the tests use -/
def INVALID_INDEX_32 : Int := 2147483647
def INVALID_INDEX_64 : Int := 4611686018427387904

/-! ### indexed strings: offsets + bytes -/

/-- entry `k` of an indexed field is `values[indices[k] : indices[k+1]]` -/
def entries {β} (indices : List Int) (values : List β) : List (List β) :=
  List.zipWith (fun a b => (values.drop a.toNat).take (b.toNat - a.toNat)) indices indices.tail

/-- offsets of a list of entries starting at `base`: `[base, base+|e0|, base+|e0|+|e1|, …]` -/
def offsetsFromI {β} (base : Int) : List (List β) → List Int
  | [] => [base]
  | e :: es => base :: offsetsFromI (base + e.length) es

/-- the stored form of a list of entries -/
def encodeIndexed {β} (es : List (List β)) : List Int × List β := (offsetsFromI 0 es, es.flatten)

/-- a stored indexed field is well formed: offsets start at 0, are non-decreasing and end at the number of bytes
    (what every ExeTera writer produces, C01) -/
def IndexedOK {β} (indices : List Int) (values : List β) : Prop :=
  indices.head? = some 0 ∧ List.Pairwise (· ≤ ·) indices ∧ indices.getLast? = some (values.length : Int)

/-- the mapped indexed column in stored form -/
def mapIndexedSpec {β} (indices : List Int) (values : List β) (inv : Int) (m : List Int) : Option (List Int × List β) :=
  (mapSpec (entries indices values) inv [] m).map encodeIndexed

end Exetera.Spec
