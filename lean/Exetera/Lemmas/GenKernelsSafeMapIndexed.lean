import Exetera.Gen.Kernels
import Exetera.Model.MapValid
import Exetera.Lemmas.MapValidIndexed
import Exetera.Lemmas.GenKernels
import Exetera.Lemmas.GenKernelsMapValid
/-!
  The TRANSLATED `safe_map_indexed_values` (two passes; an optional ARRAY parameter `empty_value` tested with `is None` in a
  conditional expression and with `is not None` inside the loop; slices of `data_values` assigned to slices of `v_result`) against
  `MapValid.safeMapIndexedValues` — transfer form: every `.ok` run of the model is a run of the translated kernel with the same
  pair (offsets, bytes), provided that where the filter is set the row number is not negative (the model wraps a negative
  subscript, the translation rejects it) and the row's two offsets lie in order inside `data_values` (the model appends the
  slice whatever its length, the code assigns it to a slice of exactly `delta` slots — numpy's size check).
-/
namespace Exetera.GenK

open Exetera Exetera.PyRt Exetera.Gen.Kernels
open Exetera.MapValid (forE getI smivLenStep smivStep SI safeMapIndexedValues)

namespace SMI

open safe_map_indexed_values

abbrev St := safe_map_indexed_values.St

/-- the model's slice with computed bounds is the prelude's slice -/
theorem pySlice_eq {α} (xs : List α) (a b : Int) : MapValid.pySlice xs a b = PyRt.pySlice xs (some a) (some b) := by
  have hn : ∀ (i : Int) (d : Nat), MapValid.normIdx xs.length i = normBound xs.length (some i) d := by
    intro i d
    simp only [MapValid.normIdx, normBound]
    by_cases h : 0 ≤ i
    · have : ¬ i < 0 := by omega
      simp only [h, this, if_true, if_false]
    · have : i < 0 := by omega
      simp only [h, this, if_true, if_false]
      omega
  simp only [MapValid.pySlice, PyRt.pySlice, hn a 0, hn b xs.length]

/-- `dest[L:L] = []` changes nothing -/
theorem setSlice_empty (dest : List Int) (L : Int) : setSliceE dest (some L) (some (L + 0)) [] = .ok dest := by
  have e : normBound dest.length (some L) dest.length = normBound dest.length (some L) 0 := rfl
  simp only [Int.add_zero, setSliceE, e, Nat.max_self, Nat.sub_self, broadcastTo, List.length_nil, if_true, List.append_nil,
    List.take_append_drop]

theorem setSlice_empty' (dest : List Int) (L : Int) :
    setSliceE dest (some L) (some (L + ((0 : Nat) : Int))) [] = .ok dest := setSlice_empty dest L

/-- writing `rhs` at the fill position of a buffer that is "written bytes ++ untouched zeros" -/
theorem slice_fill (w rhs : List Int) (capV : Nat) (d : Int) (hd : d = rhs.length) (hcap : w.length + rhs.length ≤ capV) :
    setSliceE (w ++ List.replicate (capV - w.length) 0) (some (w.length : Int)) (some ((w.length : Int) + d)) rhs
      = .ok ((w ++ rhs) ++ List.replicate (capV - (w ++ rhs).length) 0) := by
  subst hd
  have hlen : (w ++ List.replicate (capV - w.length) (0 : Int)).length = capV := by simp; omega
  have h1 : ¬ ((w.length : Int) < 0) := by omega
  have h2 : ¬ ((w.length : Int) + (rhs.length : Int) < 0) := by omega
  have e2 : ((w.length : Int) + (rhs.length : Int)).toNat = w.length + rhs.length := by omega
  simp only [setSliceE, normBound, hlen, h1, h2, if_false, Int.toNat_natCast, e2]
  have m1 : min w.length capV = w.length := by omega
  have m2 : min (w.length + rhs.length) capV = w.length + rhs.length := by omega
  have m3 : max w.length (w.length + rhs.length) = w.length + rhs.length := by omega
  simp only [m1, m2, m3, Nat.add_sub_cancel_left, broadcastTo, if_true]
  have t1 : (w ++ List.replicate (capV - w.length) (0 : Int)).take w.length = w := by simp
  have t2 : (w ++ List.replicate (capV - w.length) (0 : Int)).drop (w.length + rhs.length)
      = List.replicate (capV - (w ++ rhs).length) 0 := by
    rw [← List.drop_drop, List.drop_left, List.drop_replicate]
    congr 1
    simp only [List.length_append]
    omega
  rw [t1, t2]

/-- `i_result[i+1] = dse` on "written offsets ++ untouched zeros" -/
theorem idx_fill (b : List Int) (cap k : Nat) (v : Int) (hk : k = b.length) (h : k < cap) (site : String) :
    setIdxE (b ++ List.replicate (cap - b.length) 0) (k : Int) v site
      = .ok ((b ++ [v]) ++ List.replicate (cap - (b ++ [v]).length) 0) := by
  subst hk
  have e : cap - b.length = (cap - (b.length + 1)) + 1 := by omega
  rw [setIdxE_nat, setE, if_pos (by simp; omega)]
  rw [e, List.replicate_succ]
  simp

/-! ### first pass: `value_length` -/

theorem len_step (indices m : List Int) (filt : List Bool) (el : Nat) (i : Nat) (len len' : Int) (s : St)
    (h0 : s.p0 = indices) (h2 : s.p2 = m) (h3 : s.p3 = filt) (hv0 : s.v0 = (el : Int)) (hv1 : s.v1 = len)
    (hpos : ∀ k, filt[i]? = some true → m[i]? = some k → 0 ≤ k)
    (h : smivLenStep indices m filt el i len = .ok len') :
    body_L1 { s with v2 := (i : Int) } = .ok { s with v2 := (i : Int), v1 := len' } := by
  obtain ⟨q0, q1, q2, q3, q4, f4, w0, w1, w2, w3, w4, w5, w6, w7, w8, w9, w10⟩ := s
  simp only at h0 h2 h3 hv0 hv1
  subst h0 h2 h3 hv0 hv1
  unfold smivLenStep at h
  cases hf : q3[i]? with
  | none => simp [hf] at h
  | some f =>
    simp only [hf] at h
    have hgf : ∀ site, getE q3 i site = .ok f := fun site => by simp [getE, hf]
    simp only [body_L1, idxE_nat, hgf, bindE_ok]
    cases f with
    | true =>
      simp only [if_true] at h ⊢
      cases hm : q2[i]? with
      | none => simp [hm] at h
      | some k =>
        simp only [hm] at h
        have hk := hpos k hf hm
        have hgm : ∀ site, getE q2 i site = .ok k := fun site => by simp [getE, hm]
        simp only [hgm, bindE_ok]
        cases hb : getI q0 (k + 1) "data_indices[map_field[i]+1]" with
        | error er => simp [hb] at h
        | ok b =>
          cases ha : getI q0 k "data_indices[map_field[i]]" with
          | error er => simp [hb, ha] at h
          | ok a =>
            simp only [hb, ha, Except.ok.injEq] at h
            subst h
            rw [getI_nonneg q0 (k + 1) _ "p0[p2[v2] + 1]" b (by omega) hb, getI_nonneg q0 k _ "p0[p2[v2]]" a hk ha]
            simp only [bindE_ok]
    | false =>
      simp only [Bool.false_eq_true, if_false, Except.ok.injEq] at h ⊢
      subst h
      rfl

theorem len_loop (indices m : List Int) (filt : List Bool) (el : Nat)
    (hpos : ∀ (i : Nat) (k : Int), filt[i]? = some true → m[i]? = some k → 0 ≤ k) :
    ∀ (n i : Nat) (len len' : Int) (s : St), s.p0 = indices → s.p2 = m → s.p3 = filt → s.v0 = (el : Int) → s.v1 = len →
      forE (smivLenStep indices m filt el) i n len = .ok len' →
      ∃ k', forRangeAux (fun _ => false) (fun k s => body_L1 { s with v2 := k }) n (i : Int) s
        = .ok { s with v2 := k', v1 := len' } := by
  intro n
  induction n with
  | zero =>
    intro i len len' s _ _ _ _ hv h
    simp only [forE, Except.ok.injEq] at h
    subst h
    refine ⟨s.v2, ?_⟩
    simp only [forRangeAux]
    cases s
    simp only at hv
    subst hv
    rfl
  | succ n ih =>
    intro i len len' s h0 h2 h3 hv0 hv1 h
    simp only [forE] at h
    cases hs : smivLenStep indices m filt el i len with
    | error er => simp [hs] at h
    | ok len1 =>
      simp only [hs] at h
      have hb := len_step indices m filt el i len len1 s h0 h2 h3 hv0 hv1 (hpos i) hs
      have hc : ((i : Int) + 1) = ((i + 1 : Nat) : Int) := by omega
      simp only [forRangeAux, hb, Bool.false_eq_true, if_false, hc]
      obtain ⟨k', hk'⟩ := ih (i + 1) len1 len' { s with v2 := (i : Int), v1 := len1 } h0 h2 h3 hv0 rfl h
      exact ⟨k', hk'⟩

/-! ### second pass -/

/-- `i_result` / `v_result` are the model's lists followed by the untouched zeros; `offset` is the number of bytes written -/
structure RW (indices values m : List Int) (filt : List Bool) (e : Option (List Int)) (capI : Nat) (capV : Int) (i : Nat)
    (s : St) (t : SI Int) : Prop where
  h0 : s.p0 = indices
  h1 : s.p1 = values
  h2 : s.p2 = m
  h3 : s.p3 = filt
  h4 : s.p4 = e.getD []
  h4s : s.p4_some = e.isSome
  hv0 : s.v0 = ((e.getD []).length : Int)
  hv3 : s.v3 = t.iRes ++ List.replicate (capI - t.iRes.length) 0
  hil : t.iRes.length = i + 1
  hv4 : s.v4 = t.vRes ++ List.replicate (capV.toNat - t.vRes.length) 0
  hv5 : s.v5 = t.offset
  hoff : t.offset = (t.vRes.length : Int)

theorem write_step (indices values m : List Int) (filt : List Bool) (e : Option (List Int)) (capI : Nat) (capV : Int) (i : Nat) (s : St)
    (t t' : SI Int) (hR : RW indices values m filt e capI capV i s t)
    (hpos : ∀ k, filt[i]? = some true → m[i]? = some k → 0 ≤ k)
    (hwf : ∀ k a b, filt[i]? = some true → m[i]? = some k → indices[k.toNat]? = some a → indices[k.toNat + 1]? = some b →
      0 ≤ a ∧ a ≤ b ∧ b ≤ values.length)
    (h : smivStep indices values m filt (e.getD []) capI capV i t = .ok t') :
    ∃ s', body_L2 { s with v2 := (i : Int) } = .ok s' ∧ RW indices values m filt e capI capV (i + 1) s' t' := by
  obtain ⟨q0, q1, q2, q3, q4, f4, w0, w1, w2, w3, w4, w5, w6, w7, w8, w9, w10⟩ := s
  obtain ⟨off, iR, vR⟩ := t
  obtain ⟨h0, h1, h2, h3, h4, h4s, hv0, hv3, hil, hv4, hv5, hoff⟩ := hR
  simp only at h0 h1 h2 h3 h4 h4s hv0 hv3 hil hv4 hv5 hoff
  subst h0 h1 h2 h3 h4 h4s hv0 hv3 hv4 hv5 hoff
  unfold smivStep at h
  have e1 : (i : Int) + 1 = ((i + 1 : Nat) : Int) := by omega
  cases hf : q3[i]? with
  | none => simp [hf] at h
  | some f =>
    simp only [hf] at h
    have hgf : ∀ site, getE q3 i site = .ok f := fun site => by simp [getE, hf]
    simp only [body_L2, idxE_nat, hgf, bindE_ok]
    cases f with
    | true =>
      simp only [if_true] at h ⊢
      cases hm : q2[i]? with
      | none => simp [hm] at h
      | some k =>
        simp only [hm] at h
        have hk := hpos k hf hm
        have hgm : ∀ site, getE q2 i site = .ok k := fun site => by simp [getE, hm]
        simp only [hgm, bindE_ok]
        cases ha : getI q0 k "data_indices[map_field[i]]" with
        | error er => simp [ha] at h
        | ok a =>
          cases hb : getI q0 (k + 1) "data_indices[map_field[i]+1]" with
          | error er => simp [hb, ha] at h
          | ok b =>
            simp only [hb, ha] at h
            have ga : q0[k.toNat]? = some a := by
              have := ha; unfold getI at this; rw [if_pos hk] at this; exact getE_eq_ok.mp this
            have gb : q0[k.toNat + 1]? = some b := by
              have := hb; unfold getI at this; rw [if_pos (by omega)] at this
              have e : (k + 1).toNat = k.toNat + 1 := by omega
              rw [e] at this; exact getE_eq_ok.mp this
            obtain ⟨ha0, hab, hbl⟩ := hwf k a b hf hm ga gb
            by_cases hcI : capI ≤ i + 1
            · simp [hcI] at h
            · simp only [hcI, if_false] at h
              by_cases hcV : capV < (vR.length : Int) + (b - a)
              · simp [hcV] at h
              · simp only [hcV, if_false, Except.ok.injEq] at h
                subst h
                rw [getI_nonneg q0 k _ "p0[p2[v2]]" a hk ha, getI_nonneg q0 (k + 1) _ "p0[p2[v2] + 1]" b (by omega) hb]
                have hsl : (MapValid.pySlice q1 a b).length = (b - a).toNat := by
                  rw [MapValid.pySlice_nonneg q1 a b ha0 (by omega) hbl hab, slice_length]
                  omega
                have hd : b - a = ((MapValid.pySlice q1 a b).length : Int) := by rw [hsl]; omega
                simp only [bindE_ok, e1, idx_fill iR capI (i + 1) _ hil.symm (by omega), ← pySlice_eq,
                  slice_fill vR (MapValid.pySlice q1 a b) capV.toNat (b - a) hd (by omega)]
                refine ⟨_, rfl, ?_⟩
                constructor <;> simp [hil] <;> omega
    | false =>
      simp only [Bool.false_eq_true, if_false] at h ⊢
      by_cases hcI : capI ≤ i + 1
      · simp [hcI] at h
      · simp only [hcI, if_false] at h
        cases e with
        | none =>
          simp only [Option.getD_none, List.isEmpty_nil, Bool.not_true, Bool.false_and, Bool.false_eq_true, if_false,
            List.length_nil, Except.ok.injEq] at h
          subst h
          simp only [Option.isSome_none, Option.getD_none, List.length_nil, Bool.false_eq_true, if_false, bindE_ok, e1,
            idx_fill iR capI (i + 1) _ hil.symm (by omega)]
          refine ⟨_, rfl, ?_⟩
          constructor <;> simp [hil] <;> omega
        | some ev =>
          simp only [Option.getD_some] at h ⊢
          by_cases hev : ev = []
          · subst hev
            simp only [List.isEmpty_nil, Bool.not_true, Bool.false_and, Bool.false_eq_true, if_false, List.length_nil,
              Except.ok.injEq] at h
            subst h
            simp only [Option.isSome_some, List.length_nil, if_true, readOptE, bindE_ok, e1,
              idx_fill iR capI (i + 1) _ hil.symm (by omega), setSlice_empty']
            refine ⟨_, rfl, ?_⟩
            constructor <;> simp [hil] <;> omega
          · have hne : ev.isEmpty = false := by cases ev <;> simp_all
            simp only [hne, Bool.not_false, Bool.true_and, decide_eq_true_eq] at h
            by_cases hcV : capV < (vR.length : Int) + (ev.length : Int)
            · simp [hcV] at h
            · simp only [hcV, if_false, Except.ok.injEq] at h
              subst h
              simp only [Option.isSome_some, if_true, readOptE, bindE_ok, e1,
                idx_fill iR capI (i + 1) _ hil.symm (by omega), slice_fill vR ev capV.toNat (ev.length : Int) rfl (by omega)]
              refine ⟨_, rfl, ?_⟩
              constructor <;> simp [hil] <;> omega

theorem write_loop (indices values m : List Int) (filt : List Bool) (e : Option (List Int)) (capI : Nat) (capV : Int)
    (hpos : ∀ (i : Nat) (k : Int), filt[i]? = some true → m[i]? = some k → 0 ≤ k)
    (hwf : ∀ (i : Nat) (k a b : Int), filt[i]? = some true → m[i]? = some k → indices[k.toNat]? = some a →
      indices[k.toNat + 1]? = some b → 0 ≤ a ∧ a ≤ b ∧ b ≤ values.length) :
    ∀ (n i : Nat) (s : St) (t t' : SI Int), RW indices values m filt e capI capV i s t →
      forE (smivStep indices values m filt (e.getD []) capI (capV : Int)) i n t = .ok t' →
      ∃ s', forRangeAux (fun _ => false) (fun k s => body_L2 { s with v2 := k }) n (i : Int) s = .ok s' ∧
        RW indices values m filt e capI capV (i + n) s' t' := by
  intro n
  induction n with
  | zero =>
    intro i s t t' hR h
    simp only [forE, Except.ok.injEq] at h
    subst h
    exact ⟨s, rfl, hR⟩
  | succ n ih =>
    intro i s t t' hR h
    simp only [forE] at h
    cases hs : smivStep indices values m filt (e.getD []) capI capV i t with
    | error er => simp [hs] at h
    | ok t1 =>
      simp only [hs] at h
      obtain ⟨s1, hb, hR1⟩ := write_step indices values m filt e capI capV i s t t1 hR (hpos i) (hwf i) hs
      obtain ⟨s', hl, hR'⟩ := ih (i + 1) s1 t1 t' hR1 h
      have hc : ((i : Int) + 1) = ((i + 1 : Nat) : Int) := by omega
      refine ⟨s', ?_, by rw [show i + (n + 1) = i + 1 + n by omega]; exact hR'⟩
      simp only [forRangeAux, hb, Bool.false_eq_true, if_false, hc]
      exact hl

/-- the two passes of the MODEL add up the same lengths: the fill position after the second pass is the first pass's
    `value_length` -/
theorem offset_step (indices values m : List Int) (filt : List Bool) (empty : List Int) (capI : Nat) (capV : Int) (i : Nat)
    (len len1 : Int) (t t1 : SI Int) (h1 : smivLenStep indices m filt empty.length i len = .ok len1)
    (h2 : smivStep indices values m filt empty capI capV i t = .ok t1) : len1 - len = t1.offset - t.offset := by
  unfold smivLenStep at h1
  unfold smivStep at h2
  cases hf : filt[i]? with
  | none => simp [hf] at h1
  | some f =>
    simp only [hf] at h1 h2
    cases f with
    | true =>
      simp only at h1 h2
      cases hm : m[i]? with
      | none => simp [hm] at h1
      | some k =>
        simp only [hm] at h1 h2
        cases hb : getI indices (k + 1) "data_indices[map_field[i]+1]" with
        | error er => simp [hb] at h1
        | ok b =>
          cases ha : getI indices k "data_indices[map_field[i]]" with
          | error er => simp [hb, ha] at h1
          | ok a =>
            simp only [hb, ha, Except.ok.injEq] at h1 h2
            split at h2
            · simp at h2
            · split at h2
              · simp at h2
              · simp only [Except.ok.injEq] at h2
                subst h1 h2
                simp only
                omega
    | false =>
      simp only [Except.ok.injEq] at h1 h2
      split at h2
      · simp at h2
      · split at h2
        · simp at h2
        · simp only [Except.ok.injEq] at h2
          subst h1 h2
          simp only
          omega

theorem offset_eq (indices values m : List Int) (filt : List Bool) (empty : List Int) (capI : Nat) (capV : Int) :
    ∀ (n i : Nat) (len len' : Int) (t t' : SI Int), forE (smivLenStep indices m filt empty.length) i n len = .ok len' →
      forE (smivStep indices values m filt empty capI capV) i n t = .ok t' → len' - len = t'.offset - t.offset := by
  intro n
  induction n with
  | zero =>
    intro i len len' t t' h1 h2
    simp only [forE, Except.ok.injEq] at h1 h2
    subst h1 h2
    omega
  | succ n ih =>
    intro i len len' t t' h1 h2
    simp only [forE] at h1 h2
    cases hs1 : smivLenStep indices m filt empty.length i len with
    | error er => simp [hs1] at h1
    | ok len1 =>
      cases hs2 : smivStep indices values m filt empty capI capV i t with
      | error er => simp [hs2] at h2
      | ok t1 =>
        simp only [hs1] at h1
        simp only [hs2] at h2
        have := offset_step indices values m filt empty capI capV i len len1 t t1 hs1 hs2
        have := ih (i + 1) len1 len' t1 t' h1 h2
        omega

end SMI

open SMI in
/-- every `.ok` run of the model is a run of the translated kernel with the same (offsets, bytes), provided that where the filter
    is set the row number is not negative and the row's offsets lie in order inside `data_values` -/
theorem safe_map_indexed_values_ok (indices values m : List Int) (filt : List Bool) (e : Option (List Int))
    (r : List Int × List Int)
    (hpos : ∀ (i : Nat) (k : Int), filt[i]? = some true → m[i]? = some k → 0 ≤ k)
    (hwf : ∀ (i : Nat) (k a b : Int), filt[i]? = some true → m[i]? = some k → indices[k.toNat]? = some a →
      indices[k.toNat + 1]? = some b → 0 ≤ a ∧ a ≤ b ∧ b ≤ values.length)
    (h : safeMapIndexedValues indices values m filt (e.getD []) = .ok r) :
    safe_map_indexed_values.run indices values m filt e = .ok r := by
  unfold safeMapIndexedValues at h
  cases h1 : forE (smivLenStep indices m filt (e.getD []).length) 0 m.length 0 with
  | error er => simp [h1] at h
  | ok VL =>
    simp only [h1] at h
    cases h2 : forE (smivStep indices values m filt (e.getD []) (m.length + 1) VL) 0 m.length ⟨0, [0], []⟩ with
    | error er => simp [h2] at h
    | ok w =>
      simp only [h2, Except.ok.injEq] at h
      subst h
      have hoffs := offset_eq indices values m filt (e.getD []) (m.length + 1) VL m.length 0 0 VL ⟨0, [0], []⟩ w h1 h2
      simp only [Int.sub_zero] at hoffs
      obtain ⟨k1, hl1⟩ := len_loop indices m filt (e.getD []).length hpos m.length 0 0 VL
        ⟨indices, values, m, filt, e.getD [], e.isSome, ((e.getD []).length : Int), 0, 0, [], [], 0, 0, 0, 0, 0, 0⟩
        rfl rfl rfl rfl rfl h1
      obtain ⟨s2, hl2, hR2⟩ := write_loop indices values m filt e (m.length + 1) VL hpos hwf m.length 0
        ⟨indices, values, m, filt, e.getD [], e.isSome, ((e.getD []).length : Int), VL, k1, List.replicate (m.length + 1) 0,
          List.replicate VL.toNat 0, 0, 0, 0, 0, 0, 0⟩ ⟨0, [0], []⟩ w
        ⟨rfl, rfl, rfl, rfl, rfl, rfl, rfl, by simp [List.replicate_succ], rfl, by simp, rfl, rfl⟩ h2
      have hVL : VL = (w.vRes.length : Int) := by rw [hoffs, hR2.hoff]
      have hnn : ¬ VL < 0 := by omega
      have hz : npZeros VL = .ok (List.replicate VL.toNat 0) := by simp only [npZeros, hnn, if_false]
      have hlen0 : (if (!e.isSome) = true then (.ok 0 : Except Err Int)
          else bindE (readOptE e.isSome (e.getD []) "p4") fun t1 => .ok ((t1.length : Nat) : Int))
          = .ok ((e.getD []).length : Int) := by
        cases e <;> simp [readOptE]
      have hset : setIdxE (List.replicate (m.length + 1) (0 : Int)) 0 0 "v3[0]" = .ok (List.replicate (m.length + 1) 0) := by
        simp [setIdxE, setE, List.replicate_succ]
      rw [show ((0 : Nat) : Int) = 0 from rfl] at hl1 hl2
      simp only at hl1
      have em : (m.length : Int) + 1 = ((m.length + 1 : Nat) : Int) := by omega
      unfold safe_map_indexed_values.run
      simp only [pyLen, hlen0, bindE_ok, forRangeE, Int.sub_zero, Int.toNat_natCast, hl1, em, npZeros_nat, hz, hset, hl2]
      have h3 := hR2.hv3
      have h4 := hR2.hv4
      have hil := hR2.hil
      rw [h3, h4, hil, hVL]
      simp

end Exetera.GenK
