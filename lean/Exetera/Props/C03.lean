import Exetera.Lemmas.JoinGeneralFinal
import Exetera.Lemmas.JoinInnerSpec
import Exetera.Lemmas.JoinBUFinal
import Exetera.Lemmas.JoinRUFinal
import Exetera.Lemmas.JoinLUFinal
/-!
# C03 — streaming join maps equal the relational join for every chunk size

The theorems are about `Exetera.Join.streamed`, the model the correspondence driver executes (`Driver/C03.lean`), and about
`Exetera.Spec.leftJoin` / `innerJoin`, the relational join. `Sorted` is `List.Pairwise (· ≤ ·)`. `fuel` is the number of
driver-loop iterations the caller allows; any value above the stated linear bound gives the same result (also used by C12).
An `.ok` result means: no out-of-bounds access in any kernel (C10), no loop ran out of fuel (C12).
-/
namespace Exetera.Props.C03
open Exetera Exetera.Join Exetera.Spec

/-- General left join, every chunk size ≥ 1, every marker: the streamed maps are exactly the relational left join. -/
theorem left_streamed_eq {L R : List Int} {cs : Nat} (inv : Int) (hcs : 0 < cs) (hL : Sorted L) (hR : Sorted R)
    (fuel : Nat) (hfuel : L.length + R.length + 2 * (leftJoin L R).length + 1 ≤ fuel) :
    ∃ calls, streamed .left fuel cs inv L R =
      .ok ⟨(encodeLeft inv (leftJoin L R)).1, (encodeLeft inv (leftJoin L R)).2, calls⟩ := by
  have := general_streamed (emit := true) (inv := inv) hcs hL hR fuel (by simpa [sel] using hfuel)
  simpa [sel, gvariant, encodeLeft] using this

/-- General inner join, every chunk size ≥ 1: the streamed maps are exactly the equal-keyed pairs in (left, right) order. -/
theorem inner_streamed_eq {L R : List Int} {cs : Nat} (inv : Int) (hcs : 0 < cs) (hL : Sorted L) (hR : Sorted R)
    (fuel : Nat) (hfuel : L.length + R.length + 2 * (innerJoin L R).length + 1 ≤ fuel) :
    ∃ calls, streamed .inner fuel cs inv L R =
      .ok ⟨(encodeInner (innerJoin L R)).1, (encodeInner (innerJoin L R)).2, calls⟩ := by
  have hspec := inner_eq_sel_left R L 0
  have hlen : (sel false (leftJoin L R)).length = (innerJoin L R).length := by
    have := congrArg (fun p => p.1.length) hspec
    simpa [encodeInner, leftJoin, innerJoin] using this.symm
  obtain ⟨calls, h⟩ := general_streamed (emit := false) (inv := inv) hcs hL hR fuel (by rw [hlen]; exact hfuel)
  refine ⟨calls, ?_⟩
  have h' : streamed .inner fuel cs inv L R = _ := h
  rw [h']
  simp only [innerJoin, hspec, leftJoin]
  rw [encR_sel_false inv 0]

/-- Chunking is unobservable (general left join): any two chunk sizes give the same maps. -/
theorem left_chunk_unobservable {L R : List Int} (inv : Int) (hL : Sorted L) (hR : Sorted R) {cs₁ cs₂ : Nat}
    (h₁ : 0 < cs₁) (h₂ : 0 < cs₂) (fuel : Nat) (hfuel : L.length + R.length + 2 * (leftJoin L R).length + 1 ≤ fuel) :
    ∃ o₁ o₂, streamed .left fuel cs₁ inv L R = .ok o₁ ∧ streamed .left fuel cs₂ inv L R = .ok o₂ ∧
      o₁.lout = o₂.lout ∧ o₁.rout = o₂.rout := by
  obtain ⟨c₁, e₁⟩ := left_streamed_eq inv h₁ hL hR fuel hfuel
  obtain ⟨c₂, e₂⟩ := left_streamed_eq inv h₂ hL hR fuel hfuel
  exact ⟨_, _, e₁, e₂, rfl, rfl⟩

/-- Chunking is unobservable (general inner join). -/
theorem inner_chunk_unobservable {L R : List Int} (inv : Int) (hL : Sorted L) (hR : Sorted R) {cs₁ cs₂ : Nat}
    (h₁ : 0 < cs₁) (h₂ : 0 < cs₂) (fuel : Nat) (hfuel : L.length + R.length + 2 * (innerJoin L R).length + 1 ≤ fuel) :
    ∃ o₁ o₂, streamed .inner fuel cs₁ inv L R = .ok o₁ ∧ streamed .inner fuel cs₂ inv L R = .ok o₂ ∧
      o₁.lout = o₂.lout ∧ o₁.rout = o₂.rout := by
  obtain ⟨c₁, e₁⟩ := inner_streamed_eq inv h₁ hL hR fuel hfuel
  obtain ⟨c₂, e₂⟩ := inner_streamed_eq inv h₂ hL hR fuel hfuel
  exact ⟨_, _, e₁, e₂, rfl, rfl⟩

/-! ### Uniqueness-specialised variants (uniqueness = strict sortedness of that side) -/

/-- `…_left_both_unique_streamed`: only the right map is produced; it is the right column of the relational left join. -/
theorem left_both_unique_streamed_eq {L R : List Int} {cs : Nat} (inv : Int) (hcs : 0 < cs)
    (hL : L.Pairwise (· < ·)) (hR : R.Pairwise (· < ·)) (fuel : Nat) (hfuel : L.length + R.length ≤ fuel) :
    ∃ calls, streamed .leftBU fuel cs inv L R = .ok ⟨[], (encodeLeft inv (leftJoin L R)).2, calls⟩ :=
  Join.left_both_unique_streamed inv hcs hL hR fuel hfuel

/-- `…_inner_both_unique_streamed` -/
theorem inner_both_unique_streamed_eq {L R : List Int} {cs : Nat} (inv : Int) (hcs : 0 < cs)
    (hL : L.Pairwise (· < ·)) (hR : R.Pairwise (· < ·)) (fuel : Nat) (hfuel : L.length + R.length ≤ fuel) :
    ∃ calls, streamed .innerBU fuel cs inv L R =
      .ok ⟨(encodeInner (innerJoin L R)).1, (encodeInner (innerJoin L R)).2, calls⟩ :=
  Join.inner_both_unique_streamed_eq inv hcs hL hR fuel hfuel

/-- `…_left_right_unique_streamed`: the left column may contain runs of equal keys (longer than a chunk too). -/
theorem left_right_unique_streamed_eq {L R : List Int} {cs : Nat} (inv : Int) (hcs : 0 < cs)
    (hL : Sorted L) (hR : R.Pairwise (· < ·)) (fuel : Nat) (hfuel : L.length + R.length ≤ fuel) :
    ∃ calls, streamed .leftRU fuel cs inv L R = .ok ⟨[], (encodeLeft inv (leftJoin L R)).2, calls⟩ :=
  Join.RU.left_right_unique_streamed_eq (inv := inv) hcs hL hR fuel hfuel

/-- `…_inner_right_unique_streamed` -/
theorem inner_right_unique_streamed_eq {L R : List Int} {cs : Nat} (inv : Int) (hcs : 0 < cs)
    (hL : Sorted L) (hR : R.Pairwise (· < ·)) (fuel : Nat) (hfuel : L.length + R.length ≤ fuel) :
    ∃ calls, streamed .innerRU fuel cs inv L R =
      .ok ⟨(encodeInner (innerJoin L R)).1, (encodeInner (innerJoin L R)).2, calls⟩ :=
  Join.RU.inner_right_unique_streamed_eq (inv := inv) hcs hL hR fuel hfuel

/-- `…_left_left_unique_streamed`: the right column may contain runs of equal keys (longer than a chunk too). -/
theorem left_left_unique_streamed_eq {L R : List Int} {cs : Nat} (inv : Int) (hcs : 0 < cs)
    (hL : L.Pairwise (· < ·)) (hR : Sorted R) (fuel : Nat) (hfuel : L.length + R.length ≤ fuel) :
    ∃ calls, streamed .leftLU fuel cs inv L R =
      .ok ⟨(encodeLeft inv (leftJoin L R)).1, (encodeLeft inv (leftJoin L R)).2, calls⟩ :=
  Join.leftLU_streamed_eq inv hcs hL hR fuel hfuel

/-- `…_inner_left_unique_streamed` -/
theorem inner_left_unique_streamed_eq {L R : List Int} {cs : Nat} (inv : Int) (hcs : 0 < cs)
    (hL : L.Pairwise (· < ·)) (hR : Sorted R) (fuel : Nat) (hfuel : L.length + R.length ≤ fuel) :
    ∃ calls, streamed .innerLU fuel cs inv L R =
      .ok ⟨(encodeInner (innerJoin L R)).1, (encodeInner (innerJoin L R)).2, calls⟩ :=
  Join.innerLU_streamed_eq inv hcs hL hR fuel hfuel

/-- Every window handed to a kernel is a non-empty slice at the right offset ending at a run boundary — for every
    chunk size ≥ 1 (this is what the widening loop of `get_next_chunk` is for). -/
theorem trimmed_chunk_run_complete (xs : List Int) (start cs : Nat) (hcs : 0 < cs) (hs : start ≤ xs.length) :
    ∃ c, getNextChunk xs start cs = .ok c ∧ c.lo = start ∧ ChunkOK xs c ∧ Boundary xs c :=
  getNextChunk_ok xs start cs hcs hs

-- non-vacuity: the hypotheses are met by a non-trivial input (duplicate runs longer than the chunk on both sides)
example : Sorted [1, 1, 1, 1, 2, 5] ∧ Sorted [1, 1, 2, 3] ∧ 0 < 2 := by simp [Sorted]
example : (streamed .left 100 2 (-1) [1, 1, 1, 1, 2, 5] [1, 1, 2, 3]).toOption.map (fun o => (o.lout, o.rout)) =
    some (encodeLeft (-1) (leftJoin [1, 1, 1, 1, 2, 5] [1, 1, 2, 3])) := by decide
example : (streamed .inner 100 1 0 [1, 1, 1, 1, 2, 5] [1, 1, 2, 3]).toOption.map (fun o => (o.lout, o.rout)) =
    some (encodeInner (innerJoin [1, 1, 1, 1, 2, 5] [1, 1, 2, 3])) := by decide

example : ([1, 3, 4, 9] : List Int).Pairwise (· < ·) ∧ ([0, 3, 9, 10, 11] : List Int).Pairwise (· < ·) := by simp
example : (streamed .leftBU 9 2 7 [1, 3, 4, 9] [0, 3, 9, 10, 11]).toOption.map (fun o => o.rout) =
    some (encodeLeft 7 (leftJoin [1, 3, 4, 9] [0, 3, 9, 10, 11])).2 := by decide

end Exetera.Props.C03
