def hello := "world"
