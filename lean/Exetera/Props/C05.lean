import Exetera.Model.Csv
import Exetera.Spec.Csv
/-!
# C05 — CSV import reproduces the file's records exactly, independent of chunking
-/
namespace Exetera.Props.C05
open Exetera Exetera.Csv

theorem fieldsToUse_sublist (names : List String) (incl excl : Option (List String)) :
    (fieldsToUse names incl excl).Sublist names := by
  unfold fieldsToUse
  cases incl <;> cases excl <;> simp only
  · exact List.Sublist.refl _
  · exact List.filter_sublist
  · exact List.filter_sublist
  · exact List.Sublist.trans List.filter_sublist List.filter_sublist

/-- include / exclude lists select exactly the named columns, in file order, and `index_map` points at them. -/
theorem include_exclude_selects (names : List String) (incl excl : Option (List String)) :
    (fieldsToUse names incl excl).Sublist names ∧
    (∀ k, k ∈ fieldsToUse names incl excl ↔
      k ∈ names ∧ (∀ i, incl = some i → k ∈ i) ∧ (∀ e, excl = some e → k ∉ e)) ∧
    (∀ k ∈ fieldsToUse names incl excl, names[names.idxOf k]? = some k) := by
  refine ⟨?_, ?_, ?_⟩
  · exact fieldsToUse_sublist names incl excl
  · intro k
    unfold fieldsToUse
    cases incl <;> cases excl <;> simp [List.mem_filter]
    intro _; exact And.comm
  · intro k hk
    have hmem : k ∈ names := by
      exact (fieldsToUse_sublist names incl excl).subset hk
    have hlt : names.idxOf k < names.length := List.idxOf_lt_length_of_mem hmem
    rw [List.getElem?_eq_getElem hlt]
    simp [List.getElem_idxOf hlt]

example : fieldsToUse ["a", "b", "c"] (some ["c", "a"]) (some ["a"]) = ["c"] := by decide

end Exetera.Props.C05
