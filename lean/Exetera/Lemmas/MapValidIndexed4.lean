import Exetera.Lemmas.MapValidIndexed3
/-! Helper lemmas for C04, part 7: one map chunk and the whole indexed stream against `Spec.mapIndexedSpec`. -/
namespace Exetera.MapValid

open Exetera Exetera.Spec

theorem adds_trans {β} (esL : List (List β)) (x y z : Nat) (o1 o2 o3 : IO β) (hxy : x ≤ y) (hyz : y ≤ z)
    (h1 : Adds esL x y o1 o2) (h2 : Adds esL y z o2 o3) : Adds esL x z o1 o3 := by
  obtain ⟨a1, b1, c1⟩ := h1
  obtain ⟨a2, b2, c2⟩ := h2
  have hsl := (slice_append_slice esL x y z hxy hyz).symm
  refine ⟨?_, ?_, ?_⟩
  · rw [a2, a1, hsl, sumLen_append]; omega
  · rw [b2, b1, a1, hsl, runSums_append, List.append_assoc]
  · rw [c2, c1, hsl, List.flatten_append, List.append_assoc]

theorem adds_refl {β} (esL : List (List β)) (x : Nat) (o : IO β) : Adds esL x x o o := by
  simp [Adds, slice_self, sumLen, runSums]

/-- all sub-chunks of one map chunk -/
theorem indexed_chunk_fold_spec {β} (indices : List Int) (values : List β) (map_ : List Int) (inv : Int) (cs vf : Nat)
    (o : IO β) (esL : List (List β))
    (hok : IndexedOK indices values) (hcs1 : 1 ≤ cs) (hcs : map_.length ≤ cs) (hesLen : esL.length = map_.length)
    (hr : InRange (entries indices values).length map_ inv) (hm : ValidMonotone map_ inv)
    (hes : ∀ (p : Nat) (k : Int), map_[p]? = some k → esL[p]? = lookup (entries indices values) inv [] k)
    (hcap : ∀ e ∈ entries indices values, e.length ≤ cs * vf) :
    ∃ subs o', subchunks map_ inv cs = .ok subs ∧
      foldE (indexedSubBody indices values map_ inv cs vf) subs o = .ok o' ∧ Adds esL 0 map_.length o o' := by
  obtain ⟨subs, hsubs, htiles⟩ := subchunks_tiles map_ inv cs hcs1
  obtain ⟨o', hrun, hadds⟩ := foldE_tiles (indexedSubBody indices values map_ inv cs vf)
    (fun x o' => Adds esL 0 x o o') map_.length subs 0 o htiles (adds_refl esL 0 o)
    (by
      intro x y o1 _ hxy hy hP
      obtain ⟨o2, hrun, hadd⟩ := indexedSubBody_spec indices values map_ inv cs vf x y o1 esL hok hxy hy hcs hesLen
        hr hm hes hcap
      exact ⟨o2, hrun, adds_trans esL 0 x y o o1 o2 (by omega) (by omega) hP hadd⟩)
  exact ⟨subs, o', hsubs, hrun, hadds⟩

/-- invariant of the map-chunk loop of the indexed stream -/
def IChunkInv {β} (m : List Int) (cs : Nat) (es : List (List β)) (s : ISt β) : Prop :=
  s.lo ≤ m.length ∧ s.hi = min (s.lo + cs) m.length ∧
  s.io.accum = sumLen (es.take s.lo) ∧ s.io.outI = 0 :: runSums 0 (es.take s.lo) ∧ s.io.outV = (es.take s.lo).flatten

theorem indexedChunkBody_spec {β} (indices : List Int) (values : List β) (m : List Int) (inv : Int) (cs vf : Nat)
    (es : List (List β)) (s : ISt β)
    (hok : IndexedOK indices values) (hcs1 : 1 ≤ cs)
    (hr : InRange (entries indices values).length m inv) (hm : ValidMonotone m inv)
    (hspec : mapSpec (entries indices values) inv [] m = some es)
    (hcap : ∀ e ∈ entries indices values, e.length ≤ cs * vf)
    (hI : IChunkInv m cs es s) (hg : s.lo < m.length) :
    ∃ s', indexedChunkBody indices values m inv cs vf s = .ok s' ∧ IChunkInv m cs es s' ∧
      m.length - s'.lo < m.length - s.lo := by
  obtain ⟨hlo, hhi, hacc, hoI, hoV⟩ := hI
  have heslen : es.length = m.length := mapSpec_length _ _ _ _ _ hspec
  have hlen : (slice m s.lo s.hi).length = s.hi - s.lo := by simp only [slice_length]; omega
  have heslLen : (slice es s.lo s.hi).length = (slice m s.lo s.hi).length := by
    simp only [slice_length]; omega
  obtain ⟨subs, o', hsubs, hfold, a1, a2, a3⟩ :=
    indexed_chunk_fold_spec indices values (slice m s.lo s.hi) inv cs vf s.io (slice es s.lo s.hi) hok hcs1
      (by rw [hlen]; omega) heslLen (inRange_slice hr _ _) (validMonotone_slice hm _ _)
      (by
        intro p k hpk
        rw [slice_getElem?] at hpk ⊢
        split at hpk
        · rename_i hp
          simp only [hp, if_true]
          exact mapSpec_getElem? _ _ _ _ _ hspec _ k hpk
        · simp at hpk)
      hcap
  rw [hlen] at a1 a2 a3
  have hss : slice (slice es s.lo s.hi) 0 (s.hi - s.lo) = slice es s.lo s.hi := by
    rw [slice_slice _ _ _ _ _ (by omega)]
    congr 1; omega
  rw [hss] at a1 a2 a3
  have htake : es.take s.hi = es.take s.lo ++ slice es s.lo s.hi := take_append_slice es s.lo s.hi (by omega)
  refine ⟨⟨s.hi, min (s.hi + cs) m.length, o'⟩, ?_, ⟨by simp only []; omega, rfl, ?_, ?_, ?_⟩, by simp only []; omega⟩
  · simp only [indexedChunkBody, hsubs, hfold, nextChunk_eq]
  · simp only [htake, sumLen_append, a1, hacc]
  · simp only [htake, runSums_append, a2, hoI, hacc, List.cons_append]
    simp
  · simp only [htake, List.flatten_append, a3, hoV]

/-- `ordered_map_valid_indexed_stream` = `mapIndexedSpec`, for every chunk size ≥ 1, every marker and every value
    factor whose buffer holds the longest entry -/
theorem indexed_stream_spec {β} (indices : List Int) (values : List β) (m : List Int) (inv : Int) (cs vf : Nat)
    (hok : IndexedOK indices values) (hcs1 : 1 ≤ cs)
    (hr : InRange (entries indices values).length m inv) (hm : ValidMonotone m inv)
    (hcap : ∀ e ∈ entries indices values, e.length ≤ cs * vf) :
    ∃ out, orderedMapValidIndexedStream indices values m inv cs vf = .ok out ∧
      mapIndexedSpec indices values inv m = some out := by
  -- the specified entries exist
  obtain ⟨es, hspec⟩ : ∃ es, mapSpec (entries indices values) inv [] m = some es := by
    obtain ⟨out, _, h⟩ := stream_spec (entries indices values) m inv cs [] hcs1 hr hm
    exact ⟨out, h⟩
  have h := whileE_rule (fun s : ISt β => decide (s.lo < m.length)) (indexedChunkBody indices values m inv cs vf)
    (IChunkInv m cs es) (fun s => m.length - s.lo)
    (by
      intro s hI hg
      have hg' : s.lo < m.length := by simpa using hg
      exact indexedChunkBody_spec indices values m inv cs vf es s hok hcs1 hr hm hspec hcap hI hg')
    m.length ⟨0, min (0 + cs) m.length, ⟨0, List.replicate (min 1 cs) 0, []⟩⟩
    ⟨by simp, rfl, by simp [sumLen], by
      have : min 1 cs = 1 := by omega
      simp [this, runSums], by simp⟩ (by simp)
  obtain ⟨s', hrun, ⟨hlo, _, _, hoI, hoV⟩, hg⟩ := h
  have hge : m.length ≤ s'.lo := by simpa using hg
  have heq : s'.lo = m.length := by omega
  have heslen : es.length = m.length := mapSpec_length _ _ _ _ _ hspec
  rw [heq, ← heslen, List.take_length] at hoI hoV
  refine ⟨(s'.io.outI, s'.io.outV), ?_, ?_⟩
  · simp only [orderedMapValidIndexedStream, nextChunk_eq, hrun]
  · simp only [mapIndexedSpec, hspec, Option.map_some, encodeIndexed, offsetsFrom_eq, hoI, hoV]

end Exetera.MapValid
