import Exetera.Lemmas.CsvIndsEnd
/-! The complete records of a window, with no assumption on the staging buffers (C05, regrowth): the loop runs through all of
    them, or stops after `maxrow` of them (index buffer full), or stops inside the first one that does not fit the value
    budgets. -/
namespace Exetera.Csv
open Exetera Spec

theorem rows_run_g {src : Bytes} {offs : List Nat} {maxrow ncols : Nat} (hnc : 0 < ncols) (rows : List (List Cell)) :
    ∀ (A0 X : Bytes) (s : KS) (k np : Nat) (E : Nat → List Bytes),
      (∀ r ∈ rows, r.length = ncols ∧ ∀ c ∈ r, c.WF) →
      src = A0 ++ (render rows ++ X) →
      CellStart src offs maxrow ncols s (A0 ++ (render rows ++ X).takeWhile isWs) 0 false k np E →
      StrictCaps offs ncols E →
      ∃ n s' a, KSteps src offs maxrow n s s' ∧ a ≤ rows.length ∧
        StrictCaps offs ncols (stageRows E (rows.take a)) ∧
        ((a = rows.length ∧
          CellStart src offs maxrow ncols s' ((A0 ++ render rows) ++ X.takeWhile isWs) 0 false (k + a)
            (if rows = [] then np else (A0 ++ render rows).length) (stageRows E rows) ∧
          StrictCaps offs ncols (stageRows E rows))
         ∨ (0 < a ∧ k + a = maxrow ∧
            IndsEnd offs maxrow ncols s' (A0 ++ render (rows.take a)).length (stageRows E (rows.take a)))
         ∨ (a < rows.length ∧ ∃ j,
            FullEnd offs maxrow ncols s' (k + a) (if a = 0 then np else (A0 ++ render (rows.take a)).length)
              (stageRows E (rows.take a)) j ∧
            offAt offs (j + 1) ≤ offAt offs j + (stageRows E (rows.take (a + 1)) j).flatten.length)) := by
  induction rows with
  | nil =>
    intro A0 X s k np E _ _ hcs hstr
    exact ⟨0, s, 0, .refl _, Nat.le_refl _, by simpa [stageRows] using hstr, Or.inl ⟨rfl, by simpa [render, stageRows] using hcs, by simpa [stageRows] using hstr⟩⟩
  | cons r rs ih =>
    intro A0 X s k np E htab hsrc hcs hstr
    obtain ⟨hrlen, hrwf⟩ := htab r (by simp)
    have hrne : r ≠ [] := by intro h; rw [h] at hrlen; simp at hrlen; omega
    have hrend : render (r :: rs) ++ X = renderCells r ++ (render rs ++ X) := by simp [render]
    have hkrow := hcs.krow rfl
    by_cases hcap : RowCap offs false E 0 r
    · by_cases hk : k + 1 < maxrow
      · rw [hrend] at hsrc hcs
        obtain ⟨n1, s1, hsteps1, hcs1⟩ :=
          row_cells (offs := offs) (maxrow := maxrow) r A0 (render rs ++ X) s 0 false k np E hrne hrwf (by omega) hsrc hcs
            hcap (fun _ => hk)
        simp only [Bool.false_eq_true, if_false] at hcs1
        have hsrc1 : src = (A0 ++ renderCells r) ++ (render rs ++ X) := by rw [hsrc]; simp
        obtain ⟨n2, s2, a, hsteps2, hale, hcaps, hout⟩ :=
          ih (A0 ++ renderCells r) X s1 (k + 1) (A0 ++ renderCells r).length (stageRow false E 0 r)
            (fun x hx => htab x (by simp [hx])) hsrc1 hcs1 (strictCaps_stageRow r E 0 hstr hcap)
        refine ⟨n1 + n2, s2, a + 1, StepsN.trans hsteps1 hsteps2, by simp; omega, by simpa [stageRows] using hcaps, ?_⟩
        have hA : ∀ l : List (List Cell), A0 ++ renderCells r ++ render l = A0 ++ render (r :: l) := by
          intro l; simp [render]
        rcases hout with ⟨ha, hcs2, hstr2⟩ | ⟨hapos, hka, hend⟩ | ⟨halt, j, hend, hb⟩
        · left
          refine ⟨by simp [ha], ?_, by simpa [stageRows] using hstr2⟩
          have hnp : (if rs = [] then (A0 ++ renderCells r).length else (A0 ++ renderCells r ++ render rs).length) =
              (A0 ++ renderCells r ++ render rs).length := by
            split
            · rename_i h; subst h; simp [render]
            · rfl
          rw [hnp, hA] at hcs2
          have hk' : k + 1 + a = k + (a + 1) := by omega
          rw [hk'] at hcs2
          simpa [stageRows] using hcs2
        · right; left
          refine ⟨by omega, by omega, ?_⟩
          rw [hA] at hend
          simpa [stageRows] using hend
        · right; right
          refine ⟨by simp; omega, j, ?_, by simpa [stageRows] using hb⟩
          have hk' : k + 1 + a = k + (a + 1) := by omega
          rw [hk'] at hend
          have hnp : (if a = 0 then (A0 ++ renderCells r).length else (A0 ++ renderCells r ++ render (rs.take a)).length) =
              (A0 ++ render ((r :: rs).take (a + 1))).length := by
            split
            · rename_i h; subst h; simp [render]
            · simp [render]
          rw [hnp] at hend
          simpa [stageRows] using hend
      · -- this record fills the index buffer
        have hkeq : k + 1 = maxrow := by omega
        rw [hrend] at hsrc hcs
        obtain ⟨n1, s1, hsteps1, hend⟩ :=
          row_cells_last (offs := offs) (maxrow := maxrow) r A0 (render rs ++ X) s 0 k np E hrne hrwf (by omega) hsrc hcs
            hcap hkeq
        refine ⟨n1, s1, 1, hsteps1, by simp,
          by simpa [stageRows] using strictCaps_stageRow r E 0 hstr hcap, Or.inr (Or.inl ⟨by omega, hkeq, ?_⟩)⟩
        simpa [render, stageRows] using hend
    · -- this record does not fit the value budgets
      have htk : (renderCells r).take (renderCells r).length = renderCells r := List.take_length
      have hsrc0 : src = A0 ++ ((renderCells r).take (renderCells r).length ++ (render rs ++ X)) := by
        rw [htk, ← hrend]; exact hsrc
      have hcs0 : CellStart src offs maxrow ncols s
          (A0 ++ ((renderCells r).take (renderCells r).length ++ (render rs ++ X)).takeWhile isWs) 0 false k np E := by
        rw [htk, ← hrend]; exact hcs
      obtain ⟨n1, s1, hsteps1, hend⟩ :=
        row_stop (offs := offs) (maxrow := maxrow) (E := E) r (renderCells r).length A0 (render rs ++ X) s 0 E hrne hrwf
          (by omega) (Nat.le_refl _) (fun h => absurd h (Nat.lt_irrefl _)) (Or.inr hcap) hsrc0 hcs0 (Ext.refl _) hstr
      rcases hend with ⟨h, _⟩ | ⟨j, hend, hb⟩
      · exact absurd h (Nat.lt_irrefl _)
      · refine ⟨n1, s1, 0, hsteps1, Nat.zero_le _, by simpa [stageRows] using hstr, Or.inr (Or.inr ⟨by simp, j, ?_, ?_⟩)⟩
        · simpa [stageRows] using hend
        · simpa [stageRows] using hb

end Exetera.Csv
