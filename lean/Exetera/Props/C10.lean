import Exetera.Props.C12
import Exetera.Model.KernelSitesJoin
import Exetera.Model.KernelPathsJoin
import Exetera.Model.KernelSitesNotModelled
import Exetera.Gen.KernelShape
import Exetera.Props.C10.Basic
import Exetera.Props.C10.MapValid
import Exetera.Props.C10.Spans
import Exetera.Props.C10.FilterIndex
import Exetera.Props.C10.Unique
import Exetera.Props.C10.Concat
import Exetera.Props.C10.Journal
import Exetera.Props.C10.Transforms
import Exetera.Props.C10.Csv
import Exetera.Props.C10.JoinFlat
import Exetera.Props.C10.GroupBy
/-!
# C10 — compiled kernels never touch memory outside their arrays

Every array subscript of a modelled kernel goes through a checked accessor (`getE`, `setE`, a capacity check on a buffer that
is filled front to back), which yields `.error (.oob site)` when out of range. So each `… = .ok …` refinement theorem of the
owning property is a memory-safety theorem for the model's accesses. This property adds, per kernel family
(`Props/C10/<Family>.lean`, all in namespace `Exetera.Props.C10`):

* `no_oob_<kernel>`: for every input the owning theorem calls valid (its hypotheses repeated verbatim), every chunk / buffer
  size it allows and every `site`, the model run is not `.error (.oob site)` — a corollary of the owning theorem;
* `access_sites_covered_<family>`: the loop guards and subscripts of the family's kernels, regenerated from the CURRENT
  source into `Gen/KernelShape.lean`, are exactly the ones the model was written against (`Model/KernelSites<Family>.lean`,
  whose doc comment maps every source subscript to the model accessor that stands for it) — a dropped guard conjunct or a
  new subscript in the source breaks the build instead of going unmodelled;
* `access_paths_covered_<family>`: the same for the PATH CONDITION of every occurrence of every subscript — the ordered list
  of enclosing loop guards, `if` / `elif` tests, negated `else` branches, negated early exits (`if …: break | continue |
  return | raise`) and `and` / `or` operands to the left under which it executes — regenerated into `Gen/KernelPaths.lean`
  and compared with `Model/KernelPaths<Family>.lean` (whose doc comment says which conjunct each checked accessor relies
  on): a dominating test that is dropped, weakened or moved breaks the build. `kernel_paths_sites_match_shape`
  (`Props/C10/Basic.lean`): the two generated tables list the same kernels and the same subscripts;
* buffer statements that hold for ALL arguments: `push_oob_iff` / `pushV_oob_iff` / `setE_oob_iff` (a write is refused
  exactly when the position is not below the buffer size), `indexed_partial_buffers_bounded`,
  `concat_kernel_buffers_bounded` (no normally returning call leaves more elements in a result buffer than it has slots);
* `kernel_inventory_complete`: every compiled kernel of the current source is in a site table or in the explicit
  not-modelled list.

This file: the streamed join kernels (owning properties C03 / C12) and the inventory.

Families and owners: join (C03/C12, here), MapValid (C04), Spans (C08), FilterIndex (C09), Unique (C14), Concat (C16),
Journal (C17), Transforms (C06), Csv (C05), JoinFlat (C19), GroupBy (C07).

Differential only (listed where they belong): kernels without a model (`KernelSites.notModelled`); the buffer-full /
regrowth runs of the CSV reader
(`Props/C10/Csv.lean`); indexed `unique` on columns with trailing NULs (`no_oob_unique_partial`). Every subscript of a
modelled kernel is checked by its model (the column subscript of the import transforms: `Transforms.withCol`; the result
arrays of `numeric_bool_transform` and `safe_map_indexed_values`: capacity checks).
A path condition is syntactic (the text of the tests passed, each true when it was passed): that an accessor is safe under
it is the content of the `no_oob_*` theorems about the model; that the code has exactly these tests is
`access_paths_covered_*`.
What no model exhibits: the effect of an actual stray write on the heap.
-/
namespace Exetera.Props.C10
open Exetera Exetera.Join Exetera.Spec

/-- the loop guards and subscripts of the modelled join kernels, as regenerated from the current source, are exactly the
    ones the model was written against -/
theorem access_sites_covered_join : ∀ k ∈ KernelSites.joinSites, lookup k.1 = some k := by decide +kernel

/-- the PATH CONDITION of every subscript occurrence in these kernels (enclosing loop guards, `if` / `elif` tests, negated
    `else` branches and early exits), as regenerated from the current source (`Gen/KernelPaths.lean`), is exactly the one the
    model was written against (`Model/KernelPathsJoin.lean`): dropping or changing a test that dominates a subscript breaks
    the build; and the table covers exactly the kernels of the site table -/
theorem access_paths_covered_join :
    (∀ k ∈ KernelPaths.joinPaths, lookupPaths k.1 = some k) ∧
    KernelPaths.joinPaths.map (·.1) = KernelSites.joinSites.map (·.1) := by decide +kernel

/-- no out-of-bounds access at any site, in any of the eight join-map generators, for every valid input and every chunk
    size ≥ 1; in particular the chunk-sized result buffers are never overrun whatever the ratio of matches to rows -/
theorem no_oob_join_streamed (v : Variant) {L R : List Int} {cs : Nat} (inv : Int) (hcs : 0 < cs) (hv : C12.Valid v L R)
    (fuel : Nat) (hfuel : C12.bound L R ≤ fuel) (site : String) :
    streamed v fuel cs inv L R ≠ .error (.oob site) := by
  obtain ⟨o, ho, _⟩ := C12.join_streamed_terminates v inv hcs hv fuel hfuel
  rw [ho]; intro h; cases h

/-- the write `result[r] = …` is refused by the model exactly when `r` is not below the buffer size -/
theorem push_oob_iff (cap : Nat) (s : K) (a b : Int) (site : String) :
    (∃ e, push cap s a b site = .error e) ↔ cap ≤ s.rb.length := by
  unfold push
  split
  · constructor
    · rintro ⟨e, h⟩; cases h
    · intro h; omega
  · constructor
    · intro _; omega
    · intro _; exact ⟨_, rfl⟩

example : KernelSites.joinSites.length = 10 := by decide

/-- all site tables: the compiled kernels that have a model -/
def modelledSites : List (String × List String × List String) :=
  KernelSites.joinSites ++ KernelSites.mapValidSites ++ KernelSites.spansSites ++ KernelSites.filterIndexSites ++
  KernelSites.uniqueSites ++ KernelSites.concatSites ++ KernelSites.journalSites ++ KernelSites.transformsSites ++
  KernelSites.csvSites ++ KernelSites.joinFlatSites ++ KernelSites.groupBySites

/-- every compiled kernel found in the current source is modelled (has a site table entry, hence an
    `access_sites_covered_*` obligation) or is in the explicit not-modelled list; and no table names a kernel twice -/
theorem kernel_inventory_complete :
    (∀ k ∈ Gen.kernelShape, k.1 ∈ modelledSites.map (·.1) ∨ k.1 ∈ KernelSites.notModelled) ∧
    (modelledSites.map (·.1) ++ KernelSites.notModelled).Nodup := by decide +kernel

example : modelledSites.length = 64 ∧ KernelSites.notModelled.length = 5 ∧ Gen.kernelShape.length = 69 := by decide +kernel

end Exetera.Props.C10
