import Exetera.Spec.CsvRender
/-! C18: the CSV reader specification inverts the CSV writer specification (`parse d (render rows) = rows` up to `asRead d`). -/
namespace Exetera.Spec.Csv

theorem run_append (d : Dialect) (s : St) (xs ys : List Char) : run d s (xs ++ ys) = run d (run d s xs) ys := by
  simp [run, List.foldl_append]

theorem run_cons (d : Dialect) (s : St) (x : Char) (xs : List Char) : run d s (x :: xs) = run d (step d s x) xs := rfl

theorem run_nil (d : Dialect) (s : St) : run d s [] = s := rfl

/-- a cell can be read back by dialect `d`: a carriage return is harmless unless the reader ends records at a bare CR
    and nothing else in the cell forces the writer to quote it -/
def Readable (d : Dialect) (c : Cell) : Prop := d.crEndsRecord = true → c.any special = false → '\r' ∉ c

instance (d : Dialect) (c : Cell) : Decidable (Readable d c) := by unfold Readable; infer_instance

/-- the reader is at the start of a field with nothing accumulated -/
def Fresh (s : St) : Prop := s.cell = [] ∧ (s.ps = .startField ∨ s.ps = .startRecord)

theorem special_false {c : Char} (h : special c = false) : c ≠ ',' ∧ c ≠ '"' ∧ c ≠ '\n' := by
  simp [special] at h
  exact ⟨h.1.1, h.1.2, h.2⟩

theorem isEol_false {d : Dialect} {c : Char} (h1 : c ≠ '\n') (h2 : d.crEndsRecord = true → c ≠ '\r') : isEol d c = false := by
  cases hcr : d.crEndsRecord <;> simp_all [isEol]

/-! ### inside a field -/

theorem run_inField (d : Dialect) : ∀ (xs : List Char) (s : St), s.ps = .inField →
    (∀ c ∈ xs, special c = false ∧ isEol d c = false) →
    run d s xs = ⟨s.recs, s.row, xs.reverse ++ s.cell, .inField⟩ := by
  intro xs
  induction xs with
  | nil => intro s hs _; cases s; simp_all [run_nil]
  | cons x xs ih =>
    intro s hs h
    obtain ⟨hsp, heol⟩ := h x (by simp)
    obtain ⟨hc, _, _⟩ := special_false hsp
    have hstep : step d s x = ⟨s.recs, s.row, x :: s.cell, .inField⟩ := by
      simp [step, hs, heol, hc, addChar]
    rw [run_cons, hstep, ih _ rfl (fun c hc => h c (by simp [hc]))]
    simp

theorem run_inQuoted (d : Dialect) : ∀ (xs : List Char) (s : St), s.ps = .inQuoted →
    run d s (escape xs) = ⟨s.recs, s.row, xs.reverse ++ s.cell, .inQuoted⟩ := by
  intro xs
  induction xs with
  | nil => intro s hs; cases s; simp_all [escape, run_nil]
  | cons x xs ih =>
    intro s hs
    by_cases hq : x = '"'
    · subst hq
      have h1 : step d s '"' = ⟨s.recs, s.row, s.cell, .quoteInQuoted⟩ := by simp [step, hs]
      have h2 : step d ⟨s.recs, s.row, s.cell, .quoteInQuoted⟩ '"' = ⟨s.recs, s.row, '"' :: s.cell, .inQuoted⟩ := by
        simp [step, addChar]
      simp only [escape, if_true, BEq.rfl, run_cons, h1, h2]
      rw [ih _ rfl]; simp
    · have h1 : step d s x = ⟨s.recs, s.row, x :: s.cell, .inQuoted⟩ := by simp [step, hs, hq, addChar]
      have : (x == '"') = false := by simp [hq]
      simp only [escape, this, run_cons, h1, Bool.false_eq_true, if_false]
      rw [ih _ rfl]; simp

/-! ### the first character of a field -/

theorem step_fresh_quote (d : Dialect) (s : St) (h : Fresh s) : step d s '"' = ⟨s.recs, s.row, [], .inQuoted⟩ := by
  obtain ⟨hc, hp | hp⟩ := h <;> cases s <;> simp_all [step, stepStartRecord, stepStartField, isEol]

theorem step_fresh_comma (d : Dialect) (s : St) (h : Fresh s) : step d s ',' = ⟨s.recs, [] :: s.row, [], .startField⟩ := by
  obtain ⟨hc, hp | hp⟩ := h <;> cases s <;> simp_all [step, stepStartRecord, stepStartField, isEol, saveField]

theorem step_fresh_blank (d : Dialect) (s : St) (h : Fresh s) (hskip : d.skipInitialSpace = true) :
    step d s ' ' = ⟨s.recs, s.row, [], .startField⟩ := by
  obtain ⟨hc, hp | hp⟩ := h <;> cases s <;> simp_all [step, stepStartRecord, stepStartField, isEol]

theorem step_fresh_plain (d : Dialect) (s : St) (h : Fresh s) (c : Char) (hsp : special c = false) (heol : isEol d c = false)
    (hb : c = ' ' → d.skipInitialSpace = false) : step d s c = ⟨s.recs, s.row, [c], .inField⟩ := by
  obtain ⟨h1, h2, h3⟩ := special_false hsp
  have hb' : (c == ' ' && d.skipInitialSpace) = false := by
    by_cases hc : c = ' '
    · simp [hb hc]
    · simp [hc]
  obtain ⟨hc, hp | hp⟩ := h <;> cases s <;>
    simp_all [step, stepStartRecord, stepStartField, addChar]

/-! ### one cell followed by a delimiter or the line end -/

theorem asRead_of_special (d : Dialect) (c : Cell) (h : c.any special = true) : asRead d c = c := by simp [asRead, h]

theorem asRead_nil (d : Dialect) : asRead d [] = [] := by simp [asRead]

theorem asRead_blank_cons (d : Dialect) (cs : Cell) (hskip : d.skipInitialSpace = true) (h : cs.any special = false) :
    asRead d (' ' :: cs) = asRead d cs := by
  have : special ' ' = false := by decide
  simp [asRead, hskip, h, this]

theorem asRead_cons_of_ne (d : Dialect) (x : Char) (cs : Cell) (hb : x = ' ' → d.skipInitialSpace = false) :
    asRead d (x :: cs) = x :: cs := by
  by_cases hx : x = ' '
  · simp [asRead, hb hx]
  · simp only [asRead]
    have hne : (x == ' ') = false := by simp [hx]
    split
    · simp [List.dropWhile, hne]
    · rfl

theorem unquoted_cons_facts {d : Dialect} {x : Char} {cs : Cell} (hsp : (x :: cs).any special = false)
    (hr : d.crEndsRecord = true → '\r' ∉ (x :: cs)) :
    special x = false ∧ isEol d x = false ∧ cs.any special = false ∧ (d.crEndsRecord = true → '\r' ∉ cs) ∧
      (∀ c ∈ cs, special c = false ∧ isEol d c = false) := by
  have hx : special x = false := by simpa using (List.any_eq_false.mp hsp) x (by simp)
  have hcs : cs.any special = false := by
    rw [List.any_eq_false] at hsp ⊢
    intro c hc; exact hsp c (by simp [hc])
  have hall : ∀ c ∈ (x :: cs), special c = false ∧ isEol d c = false := by
    intro c hc
    have hs : special c = false := by simpa using (List.any_eq_false.mp hsp) c hc
    refine ⟨hs, isEol_false (special_false hs).2.2 ?_⟩
    intro hcr heq
    subst heq
    exact hr hcr hc
  exact ⟨hx, (hall x (by simp)).2, hcs, fun hcr hmem => hr hcr (by simp [hmem]), fun c hc => hall c (by simp [hc])⟩

theorem unquoted_comma (d : Dialect) : ∀ (c : Cell) (s : St), Fresh s → c.any special = false →
    (d.crEndsRecord = true → '\r' ∉ c) →
    run d s (c ++ [',']) = ⟨s.recs, asRead d c :: s.row, [], .startField⟩ := by
  intro c
  induction c with
  | nil => intro s hf _ _; simp [run_cons, run_nil, step_fresh_comma d s hf, asRead_nil]
  | cons x cs ih =>
    intro s hf hsp hr
    obtain ⟨hx, heol, hcs, hr', hall⟩ := unquoted_cons_facts hsp hr
    by_cases hb : x = ' ' ∧ d.skipInitialSpace = true
    · obtain ⟨rfl, hskip⟩ := hb
      rw [List.cons_append, run_cons, step_fresh_blank d s hf hskip, ih _ ⟨rfl, Or.inl rfl⟩ hcs hr',
        asRead_blank_cons d cs hskip hcs]
    · have hb' : x = ' ' → d.skipInitialSpace = false := by
        intro hx'; cases h : d.skipInitialSpace <;> simp_all
      rw [List.cons_append, run_cons, step_fresh_plain d s hf x hx heol hb', run_append, run_inField d cs _ rfl hall,
        asRead_cons_of_ne d x cs hb']
      simp [run_cons, run_nil, step, isEol, saveField]

theorem unquoted_eol (d : Dialect) : ∀ (c : Cell) (s : St), Fresh s → c.any special = false →
    (d.crEndsRecord = true → '\r' ∉ c) → (c ≠ [] ∨ s.ps = .startField) →
    run d s (c ++ ['\n']) = ⟨(asRead d c :: s.row).reverse :: s.recs, [], [], .startRecord⟩ := by
  intro c
  induction c with
  | nil =>
    intro s hf _ _ hside
    have hp : s.ps = .startField := by simpa using hside
    have hc : s.cell = [] := hf.1
    cases s
    simp_all [run_cons, run_nil, step, stepStartField, isEol, endRecord, eolNext, asRead_nil]
  | cons x cs ih =>
    intro s hf hsp hr _
    obtain ⟨hx, heol, hcs, hr', hall⟩ := unquoted_cons_facts hsp hr
    by_cases hb : x = ' ' ∧ d.skipInitialSpace = true
    · obtain ⟨rfl, hskip⟩ := hb
      rw [List.cons_append, run_cons, step_fresh_blank d s hf hskip, ih _ ⟨rfl, Or.inl rfl⟩ hcs hr' (Or.inr rfl),
        asRead_blank_cons d cs hskip hcs]
    · have hb' : x = ' ' → d.skipInitialSpace = false := by
        intro hx'; cases h : d.skipInitialSpace <;> simp_all
      rw [List.cons_append, run_cons, step_fresh_plain d s hf x hx heol hb', run_append, run_inField d cs _ rfl hall,
        asRead_cons_of_ne d x cs hb']
      simp [run_cons, run_nil, step, isEol, endRecord, eolNext]

theorem quoted_comma (d : Dialect) (c : Cell) (s : St) (hf : Fresh s) :
    run d s ('"' :: (escape c ++ ['"']) ++ [',']) = ⟨s.recs, c :: s.row, [], .startField⟩ := by
  rw [List.cons_append, run_cons, step_fresh_quote d s hf, List.append_assoc, run_append, run_inQuoted d c _ rfl]
  simp [run_cons, run_nil, step, saveField]

theorem quoted_eol (d : Dialect) (c : Cell) (s : St) (hf : Fresh s) :
    run d s ('"' :: (escape c ++ ['"']) ++ ['\n']) = ⟨(c :: s.row).reverse :: s.recs, [], [], .startRecord⟩ := by
  rw [List.cons_append, run_cons, step_fresh_quote d s hf, List.append_assoc, run_append, run_inQuoted d c _ rfl]
  simp [run_cons, run_nil, step, isEol, endRecord, eolNext]

theorem cell_comma (d : Dialect) (c : Cell) (s : St) (hf : Fresh s) (hr : Readable d c) :
    run d s (renderCell c ++ [',']) = ⟨s.recs, asRead d c :: s.row, [], .startField⟩ := by
  by_cases hsp : c.any special = true
  · simp only [renderCell, hsp, if_true, asRead_of_special d c hsp]
    exact quoted_comma d c s hf
  · have hsp' : c.any special = false := by simpa using hsp
    simp only [renderCell, hsp']
    exact unquoted_comma d c s hf hsp' (fun hcr => hr hcr hsp')

theorem cell_eol (d : Dialect) (c : Cell) (s : St) (hf : Fresh s) (hr : Readable d c) (hside : c ≠ [] ∨ s.ps = .startField) :
    run d s (renderCell c ++ ['\n']) = ⟨(asRead d c :: s.row).reverse :: s.recs, [], [], .startRecord⟩ := by
  by_cases hsp : c.any special = true
  · simp only [renderCell, hsp, if_true, asRead_of_special d c hsp]
    exact quoted_eol d c s hf
  · have hsp' : c.any special = false := by simpa using hsp
    simp only [renderCell, hsp']
    exact unquoted_eol d c s hf hsp' (fun hcr => hr hcr hsp') hside

/-! ### one record -/

theorem run_joinCells (d : Dialect) : ∀ (cells : List Cell) (s : St), Fresh s → cells ≠ [] →
    (∀ c ∈ cells, Readable d c) → ¬ (s.ps = .startRecord ∧ cells = [[]]) →
    run d s (joinCells cells ++ ['\n']) = ⟨(s.row.reverse ++ cells.map (asRead d)) :: s.recs, [], [], .startRecord⟩ := by
  intro cells
  induction cells with
  | nil => intro s _ h; exact absurd rfl h
  | cons c cs ih =>
    intro s hf _ hr hside
    cases cs with
    | nil =>
      have hside' : c ≠ [] ∨ s.ps = .startField := by
        by_cases hc : c = []
        · right
          rcases hf.2 with h | h
          · exact h
          · exact absurd ⟨h, by simp [hc]⟩ hside
        · exact Or.inl hc
      simp only [joinCells]
      rw [cell_eol d c s hf (hr c (by simp)) hside']
      simp
    | cons c' cs' =>
      have : joinCells (c :: c' :: cs') ++ ['\n'] = (renderCell c ++ [',']) ++ (joinCells (c' :: cs') ++ ['\n']) := by
        simp [joinCells]
      rw [this, run_append, cell_comma d c s hf (hr c (by simp)),
        ih _ ⟨rfl, Or.inl rfl⟩ (by simp) (fun x hx => hr x (by simp [hx])) (by simp)]
      simp

theorem run_renderRow (d : Dialect) (cells : List Cell) (recs : List (List Cell)) (hr : ∀ c ∈ cells, Readable d c) :
    run d ⟨recs, [], [], .startRecord⟩ (renderRow cells) = ⟨cells.map (asRead d) :: recs, [], [], .startRecord⟩ := by
  by_cases h1 : cells = [[]]
  · subst h1
    simp [renderRow, run_cons, run_nil, step, stepStartRecord, stepStartField, isEol, endRecord, eolNext, asRead_nil]
  · by_cases h0 : cells = []
    · subst h0
      simp [renderRow, joinCells, run_cons, run_nil, step, stepStartRecord, isEol, eolNext]
    · simp only [renderRow, h1, if_false]
      rw [run_joinCells d cells _ ⟨rfl, Or.inr rfl⟩ h0 hr (by simp [h1])]
      simp

theorem run_render (d : Dialect) : ∀ (rows : List (List Cell)) (recs : List (List Cell)),
    (∀ r ∈ rows, ∀ c ∈ r, Readable d c) →
    run d ⟨recs, [], [], .startRecord⟩ (render rows) = ⟨(rows.map (·.map (asRead d))).reverse ++ recs, [], [], .startRecord⟩ := by
  intro rows
  induction rows with
  | nil => intro recs _; simp [render, run_nil]
  | cons r rs ih =>
    intro recs hr
    have : render (r :: rs) = renderRow r ++ render rs := by simp [render]
    rw [this, run_append, run_renderRow d r recs (hr r (by simp)), ih _ (fun r' h' => hr r' (by simp [h']))]
    simp

/-- **The reader inverts the writer.** Every record written by `render` is read back by a reader of dialect `d`, cell by cell,
    as `asRead d` of what was written — for the standard dialect that is the cell itself. -/
theorem parse_render (d : Dialect) (rows : List (List Cell)) (hr : ∀ r ∈ rows, ∀ c ∈ r, Readable d c) :
    parse d (render rows) = rows.map (·.map (asRead d)) := by
  simp only [parse, St.init]
  rw [run_render d rows [] hr]
  simp [finish]

theorem asRead_std (c : Cell) : asRead .std c = c := by simp [asRead, Dialect.std]

theorem readable_exetera (c : Cell) : Readable .exetera c := by intro h; simp [Dialect.exetera] at h

end Exetera.Spec.Csv
