import Exetera.Spec.Catalogue
import Exetera.Lemmas.CatalogueTables
/-! Every building block of the catalogue model preserves `InvCore`/`Inv` (whether it returns or raises). -/
namespace Exetera.Catalogue

theorem getElem?_snoc_lt {α} {l : List α} {i : Nat} {x y : α} (h : l[i]? = some x) : (l ++ [y])[i]? = some x := by
  have := (List.getElem?_eq_some_iff.1 h).1
  rw [List.getElem?_append_left this]; exact h

theorem getElem?_snoc {α} {l : List α} {y x : α} {i : Nat} (h : (l ++ [y])[i]? = some x) :
    (i < l.length ∧ l[i]? = some x) ∨ (i = l.length ∧ x = y) := by
  rcases Nat.lt_or_ge i l.length with hlt | hge
  · rw [List.getElem?_append_left hlt] at h; exact Or.inl ⟨hlt, h⟩
  · rw [List.getElem?_append_right hge] at h
    rcases Nat.eq_zero_or_pos (i - l.length) with h0 | h0
    · rw [h0] at h; simp only [List.getElem?_cons_zero, Option.some.injEq] at h
      exact Or.inr ⟨by omega, h.symm⟩
    · rw [List.getElem?_eq_none (by simp; omega)] at h; cases h

theorem addField_inv {s : State} (hI : InvCore s) (g : Nat) (n : Name) (c : Content) (hg : g ∈ s.file.map (·.2)) :
    InvCore (addField .repaired s g n c).state := by
  unfold addField
  split
  · exact hI
  split
  · exact hI
  next h1 h2 =>
  simp only [Res.state]
  refine { colsNodup := ?_, linksNodup := ?_, sameKeys := ?_, sameObj := ?_, handleInj := ?_, oidInj := ?_, oidLt := ?_,
           fileNodup := hI.fileNodup, frameInj := hI.frameInj,
           frameName := hI.frameName, frameDs := hI.frameDs, fdsLen := hI.fdsLen, linkFrame := ?_,
           handleLink := ?_, handleOidLt := ?_ }
  · exact keys_snoc_nodup _ hI.colsNodup h1
  · exact keys_snoc_nodup _ hI.linksNodup h2
  · intro k; simp only [keys_append, List.mem_append, hI.sameKeys k, keys_cons, keys_nil]
  · intro k h hk
    simp only [List.mem_append, List.mem_singleton] at hk
    rcases hk with hk | hk
    · obtain ⟨hd, h1, h2, h3, h4, h5, h6⟩ := hI.sameObj k h hk
      exact ⟨hd, getElem?_snoc_lt h1, h2, h3, h4, h5, List.mem_append_left _ h6⟩
    · obtain ⟨rfl, rfl⟩ := Prod.mk.inj hk
      refine ⟨_, List.getElem?_concat_length, rfl, rfl, by simp, rfl, by simp⟩
  · apply vals_snoc_nodup _ hI.handleInj
    intro e he heq
    obtain ⟨hd, h1, _⟩ := hI.sameObj e.1 e.2 he
    have := (List.getElem?_eq_some_iff.1 h1).1
    omega
  · apply vals_snoc_nodup _ hI.oidInj
    intro e he heq
    have := hI.oidLt e.1 e.2 he
    omega
  · intro k o hk
    simp only [List.mem_append, List.mem_singleton] at hk
    simp only [List.length_append, List.length_cons, List.length_nil]
    rcases hk with hk | hk
    · have := hI.oidLt k o hk; omega
    · obtain ⟨rfl, rfl⟩ := Prod.mk.inj hk; omega
  · intro k o hk
    simp only [List.mem_append, List.mem_singleton] at hk
    rcases hk with hk | hk
    · exact hI.linkFrame k o hk
    · obtain ⟨rfl, rfl⟩ := Prod.mk.inj hk; exact hg
  · intro h hd hh hc k hk
    simp only [List.mem_append, List.mem_singleton] at hk ⊢
    rcases getElem?_snoc hh with ⟨_, hh'⟩ | ⟨rfl, rfl⟩
    · have hlt' := hI.handleOidLt h hd hh'
      rcases hk with hk | hk
      · exact Or.inl (hI.handleLink h hd hh' hc k hk)
      · have := (Prod.mk.inj hk).2; omega
    · rcases hk with hk | hk
      · have := hI.oidLt k _ hk; simp at this
      · right; rw [(Prod.mk.inj hk).1]
  · intro h hd hh
    simp only [List.length_append, List.length_cons, List.length_nil]
    rcases getElem?_snoc hh with ⟨_, hh'⟩ | ⟨rfl, rfl⟩
    · have := hI.handleOidLt h hd hh'; omega
    · simp

/-- removing a column from both catalogues -/
theorem removeBoth_inv {s : State} (hI : InvCore s) (k : Key) :
    InvCore { s with links := erase s.links k, cols := erase s.cols k } := by
  refine { colsNodup := keys_erase_nodup _ hI.colsNodup, linksNodup := keys_erase_nodup _ hI.linksNodup,
           sameKeys := ?_, sameObj := ?_, handleInj := vals_erase_nodup _ hI.handleInj,
           oidInj := vals_erase_nodup _ hI.oidInj, oidLt := ?_,
           fileNodup := hI.fileNodup, frameInj := hI.frameInj,
           frameName := hI.frameName, frameDs := hI.frameDs, fdsLen := hI.fdsLen, linkFrame := ?_,
           handleLink := ?_, handleOidLt := hI.handleOidLt }
  · intro x; simp only [mem_keys_erase, hI.sameKeys x]
  · intro x h hx
    rw [mem_erase] at hx
    obtain ⟨hd, h1, h2, h3, h4, h5, h6⟩ := hI.sameObj x h hx.1
    exact ⟨hd, h1, h2, h3, h4, h5, mem_erase.2 ⟨h6, hx.2⟩⟩
  · intro x o hx; exact hI.oidLt x o (mem_erase.1 hx).1
  · intro x o hx; exact hI.linkFrame x o (mem_erase.1 hx).1
  · intro h hd hh hc x hx
    rw [mem_erase] at hx ⊢
    exact ⟨hI.handleLink h hd hh hc x hx.1, hx.2⟩

theorem delItem_inv {s : State} (hI : InvCore s) (g : Nat) (n : Name) : InvCore (delItem s g n).state := by
  unfold delItem
  split
  · exact hI
  split
  · exact hI
  exact removeBoth_inv hI (g, n)

theorem dropField_inv {s : State} (hI : InvCore s) (g : Nat) (n : Name) : InvCore (dropField s g n).state := by
  unfold dropField
  split
  · exact hI
  next h1 =>
  simp only
  split
  · next h2 => exact absurd ((hI.sameKeys _).1 (Decidable.not_not.1 h1)) h2
  · exact removeBoth_inv hI (g, n)

/-- under the invariant `drop` cannot stop half way -/
theorem dropField_ok {s : State} (hI : InvCore s) {g : Nat} {n : Name} (h : (g, n) ∈ keys s.cols) :
    dropField s g n = .ok () { s with links := erase s.links (g, n), cols := erase s.cols (g, n) } := by
  unfold dropField
  simp only [h, not_true_eq_false, if_false, (hI.sameKeys _).1 h]

theorem invalidate_handle {s : State} {h j : Nat} {hd : Handle} (hh : (invalidate s h).handles[j]? = some hd) :
    ∃ hd0, s.handles[j]? = some hd0 ∧ hd.oid = hd0.oid ∧ hd.closed = hd0.closed ∧ hd.owner = hd0.owner ∧ hd.home = hd0.home ∧
      (j ≠ h → hd = hd0) := by
  simp only [invalidate, List.getElem?_modify] at hh
  cases hj : s.handles[j]? with
  | none => rw [hj] at hh; simp at hh
  | some hd0 =>
    rw [hj] at hh
    simp only [Option.map_eq_map, Option.map_some, Option.some.injEq] at hh
    refine ⟨hd0, rfl, ?_⟩
    subst hh
    split
    · next he => exact ⟨rfl, rfl, rfl, rfl, fun hne => absurd he.symm hne⟩
    · exact ⟨rfl, rfl, rfl, rfl, fun _ => rfl⟩

theorem invalidate_inv {s : State} (hI : InvCore s) {h : Nat} (hh : h ∉ s.cols.map (·.2)) : InvCore (invalidate s h) := by
  refine { colsNodup := hI.colsNodup, linksNodup := hI.linksNodup, sameKeys := hI.sameKeys, sameObj := ?_,
           handleInj := hI.handleInj, oidInj := hI.oidInj, oidLt := hI.oidLt,
           fileNodup := hI.fileNodup, frameInj := hI.frameInj,
           frameName := hI.frameName, frameDs := hI.frameDs, fdsLen := hI.fdsLen, linkFrame := hI.linkFrame,
           handleLink := ?_, handleOidLt := ?_ }
  · intro k j hk
    obtain ⟨hd, h1, h2⟩ := hI.sameObj k j hk
    have hne : j ≠ h := by
      intro he; subst he; exact hh (List.mem_map.2 ⟨(k, j), hk, rfl⟩)
    refine ⟨hd, ?_, h2⟩
    simp only [invalidate, List.getElem?_modify, h1]
    simp [Ne.symm hne]
  · intro j hd hj hc k hk
    obtain ⟨hd0, h0, ho, hcl, _, _, _⟩ := invalidate_handle hj
    exact hI.handleLink j hd0 h0 (by rw [← hcl]; exact hc) k (by rw [← ho]; exact hk)
  · intro j hd hj
    obtain ⟨hd0, h0, ho, _⟩ := invalidate_handle hj
    have := hI.handleOidLt j hd0 h0
    show hd.oid < s.objs.length
    omega

theorem copyField_inv {s : State} (hI : InvCore s) (h g : Nat) (n : Name) (hg : g ∈ s.file.map (·.2)) :
    InvCore (copyField .repaired s h g n).state := by
  unfold copyField
  split
  · exact hI
  · exact addField_inv hI g n _ hg

theorem addCopy_inv {s : State} (hI : InvCore s) (h g : Nat) (hg : g ∈ s.file.map (·.2)) :
    InvCore (addCopy .repaired s g h).state := by
  unfold addCopy
  split
  · exact hI
  · exact copyField_inv hI h g _ hg

theorem deleteField_inv {s : State} (hI : InvCore s) (h g : Nat) : InvCore (deleteField s g h).state := by
  unfold deleteField
  split
  · exact hI
  split
  · exact hI
  split
  · exact hI
  · exact delItem_inv hI g _

/-- what `addField` leaves untouched / how it extends the state -/
theorem addField_ok_shape {v : Variant} {s s1 : State} {g : Nat} {n : Name} {c : Content} {a : Nat}
    (h : addField v s g n c = .ok a s1) :
    s1.file = s.file ∧ s1.dfs = s.dfs ∧ s1.fname = s.fname ∧ s1.fds = s.fds ∧
    (∀ (j : Nat) (hd : Handle), s.handles[j]? = some hd → s1.handles[j]? = some hd) ∧
    (∀ e, e ∈ s.links → e ∈ s1.links) ∧ (∀ e, e ∈ s.cols → e ∈ s1.cols) ∧
    (∀ e, e ∈ s1.links → e ∈ s.links ∨ e.1 = (g, n)) ∧ (∀ e, e ∈ s1.cols → e ∈ s.cols ∨ e.1 = (g, n)) := by
  unfold addField at h
  split at h
  · cases h
  split at h
  · cases h
  simp only [Res.ok.injEq] at h
  obtain ⟨_, rfl⟩ := h
  refine ⟨rfl, rfl, rfl, rfl, ?_, ?_, ?_, ?_, ?_⟩
  · intro j hd hj; exact getElem?_snoc_lt hj
  · intro e he; exact List.mem_append_left _ he
  · intro e he; exact List.mem_append_left _ he
  · intro e he
    simp only [List.mem_append, List.mem_singleton] at he
    rcases he with he | he
    · exact Or.inl he
    · right; rw [he]
  · intro e he
    simp only [List.mem_append, List.mem_singleton] at he
    rcases he with he | he
    · exact Or.inl he
    · right; rw [he]

theorem ensureValid_ok {s : State} {h : Nat} {hd : Handle} (hv : ensureValid s h = .ok hd) :
    s.handles[h]? = some hd ∧ hd.closed = false ∧ hd.valid = true := by
  unfold ensureValid at hv
  split at hv
  · cases hv
  · next hd' hh =>
    split at hv
    · cases hv
    · split at hv
      · next hc hvv => cases hv; exact ⟨hh, by simpa using hc, hvv⟩
      · cases hv

theorem fieldName_ok {s : State} (hI : InvCore s) {h : Nat} {k : Name} (hn : fieldName s h = .ok k) :
    ∃ hd g, s.handles[h]? = some hd ∧ hd.owner = some g ∧ ((g, k), h) ∈ s.cols := by
  unfold fieldName at hn
  split at hn
  · cases hn
  · next hd hv =>
    obtain ⟨hh, hc, _⟩ := ensureValid_ok hv
    split at hn
    · next n hnm =>
      cases hn
      obtain ⟨g, hg⟩ := (nameOfVal_eq_some hI.oidInj).1 hnm
      have hcol := hI.handleLink h hd hh hc _ hg
      obtain ⟨hd', h1, _, _, h4, _, _⟩ := hI.sameObj _ _ hcol
      rw [hh] at h1; cases h1
      exact ⟨hd, g, hh, h4, hcol⟩
    · cases hn

theorem moveField_cross_inv {s : State} (hI : InvCore s) (h g : Nat) (n : Name) (hd : Handle) (hg : g ∈ s.file.map (·.2))
    (hv : ensureValid s h = .ok hd) :
    InvCore ((copyField .repaired s h g n).andThen fun _ s1 =>
        match hd.owner with
        | none => .err attrErr s1
        | some og =>
          match fieldName s1 h with
          | .error e => .err e s1
          | .ok k => (dropField s1 og k).andThen fun _ s2 => .ok () (invalidate s2 h)).state := by
  have hI1 := copyField_inv hI h g n hg
  cases hc : copyField .repaired s h g n with
  | err e s1 => simp only [Res.andThen, Res.state]; rw [hc] at hI1; exact hI1
  | ok a s1 =>
    rw [hc] at hI1
    simp only [Res.state] at hI1
    simp only [Res.andThen]
    split
    · exact hI1
    · next og hog =>
      split
      · exact hI1
      · next k hk =>
        obtain ⟨hd1, g', hh1, ho1, hcol⟩ := fieldName_ok hI1 hk
        -- the handle is the same object as before the copy
        have hsame : hd1 = hd := by
          have h0 := (ensureValid_ok hv).1
          unfold copyField at hc
          split at hc
          · cases hc
          · have := (addField_ok_shape hc).2.2.2.2.1 h hd h0
            rw [hh1] at this; exact Option.some.inj this
        subst hsame
        rw [hog] at ho1
        cases ho1
        rw [dropField_ok hI1 (mem_keys_of_mem hcol)]
        simp only [Res.andThen, Res.state]
        apply invalidate_inv (removeBoth_inv hI1 (og, k))
        simp only [List.mem_map, not_exists, not_and]
        intro e he heq
        rw [mem_erase] at he
        have : e.1 = (og, k) := by
          have := injective hI1.handleInj (k := e.1) (k' := (og, k)) (v := h) (by rw [← heq]; exact he.1) hcol
          exact this
        exact he.2 this

end Exetera.Catalogue
