import Exetera.Lemmas.LegacyStreamed
/-!
# C12 — the legacy re-slicing driver `generate_ordered_map_to_left_right_unique_streamed_old`

(used by `Session.ordered_merge_left/right` in their streamed form; model `Model/JoinOld.lean` with D17 / NC19a repaired).
The model runs the main loop with the budget `|L| + |R|`, each `_partial_old` call with `|lc| + |rc|` and the tail loop with
`|L|` — all written in the definitions, all linear. The theorems: on EVERY input (no sortedness or uniqueness needed for
termination) and every chunk size ≥ 1 the run ends in `.ok` within those budgets — in particular the driver's own
`ValueError("'i' has got ahead of current chunk")` and the generators' `StopIteration` cannot occur — and every iteration of the
main loop strictly advances `i + j`.
The second legacy driver, `ordered_map_valid_stream_old`, has no C12 theorem (see the harness note).
-/
namespace Exetera.Props.C12
open Exetera Exetera.JoinOld Exetera.JoinOld.Term

/-- **legacy_join_streamed_terminates.** Every input, every chunk size ≥ 1: `.ok` within the model's linear budgets
    (`1·|L| + 1·|R|` main-loop iterations, `|L|` tail iterations). -/
theorem legacy_join_streamed_terminates (left right : List Int) (inv : Int) (cs : Nat) (hcs : 1 ≤ cs) :
    ∃ r, streamedOld left right inv cs = .ok r ∧ streamedOld left right inv cs ≠ .error .outOfFuel := by
  obtain ⟨r, h⟩ := streamedOld_ok left right inv cs hcs
  exact ⟨r, h, by rw [h]; intro h'; cases h'⟩

/-- **legacy_join_streamed_never_spins.** From every state the driver reaches (`DInv`: both views are the current chunks
    re-sliced at the global positions, non-empty while rows remain), one iteration of the main loop ends in `.ok`, keeps the
    invariant, strictly decreases `(|L| - i) + (|R| - j)` — a `_partial_old` call consumes one of the two views completely —
    and only appends to the output. -/
theorem legacy_join_streamed_never_spins (left right : List Int) (cs : Nat) (inv : Int) (hcs : 1 ≤ cs) (s : SO)
    (hI : DInv left right cs s) (hi : s.i < left.length) (hj : s.j < right.length) :
    ∃ s', oldBody left right cs inv s = .ok s' ∧ DInv left right cs s' ∧
      (left.length - s'.i) + (right.length - s'.j) < (left.length - s.i) + (right.length - s.j) ∧ s.out <+: s'.out :=
  oldBody_step left right cs inv hcs s hI hi hj

-- chunk size 2, duplicate left keys spanning chunks, unmatched keys on both sides
example : streamedOld [1, 2, 2, 3, 5, 5, 6, 9] [2, 3, 4, 5, 9] (-1) 2 = .ok (true, [-1, 0, 0, 1, 3, 3, -1, 4]) := by rfl
example : streamedOld [1, 1, 1] [] (-1) 1 = .ok (true, [-1, -1, -1]) := by rfl

end Exetera.Props.C12
