import Driver.Util
import Exetera.Model.GroupBy
open Lean Exetera Exetera.GroupBy
namespace Driver.C07

def castOf : String → Option (Int → Int)
  | "id" => some id
  | "f64" => some castF64
  | "dec" => some castDec
  | _ => none

/-- a cast given as a finite table `[[value, promoted value], …]` (what numpy's promotion does to the values of this column,
    computed by the harness with numpy itself, order-isomorphically coded) -/
def tableCast (t : List (Int × Int)) (x : Int) : Int := (t.lookup x).getD x

def keyOf (j : Json) : Except String KeyCol := do
  let c ← Driver.get? String j "cast"
  let d ← Driver.get? (List Int) j "data"
  if c == "table" then
    let rows ← Driver.get? (List (List Int)) j "table"
    let t := rows.filterMap (fun r => match r with | [a, b] => some (a, b) | _ => none)
    pure ⟨tableCast t, d⟩
  else
    let some f := castOf c | throw s!"bad cast {c}"
    pure ⟨f, d⟩

def targetOf (j : Json) : Except String Target := do
  let k ← Driver.get? String j "kind"
  match k with
  | "plain" => pure (.plain (← Driver.get? (List Int) j "data"))
  | "indexed" => pure (.indexed (← Driver.get? (List Nat) j "indices") (← Driver.get? (List Nat) j "values"))
  | _ => throw s!"bad target kind {k}"

def aggOf : String → Option Agg
  | "min" => some .min | "max" => some .max | "first" => some .first | "last" => some .last
  | _ => none

def colJson : Col → Json
  | .ints xs => Driver.ints xs
  | .strs rows => Json.arr (rows.map Driver.nats).toArray

def outJson (o : Out) : Json :=
  Json.mkObj [("keys", Json.arr (o.keys.map Driver.ints).toArray), ("vals", Json.arr (o.vals.map colJson).toArray)]

def columnOf (j : Json) : Except String Spans.Column := do
  let k ← Driver.get? String j "kind"
  match k with
  | "numeric" => pure (.numeric (← Driver.get? (List Int) j "data"))
  | "fixed" => pure (.fixed (← Driver.get? (List (List Nat)) j "rows"))
  | "indexed" => pure (.indexed (← Driver.get? (List Nat) j "indices") (← Driver.get? (List Nat) j "values"))
  | _ => throw s!"bad column kind {k}"

def variantOf (j : Json) : Spans.Variant :=
  match j.getObjValAs? String "variant" with
  | .ok "asFound" => .asFound
  | _ => .repaired

/-- the aggregate call on what a `groupby` returned -/
def finish (v : Spans.Variant) (a : String) (ks : List KeyCol) (ts : List Target) (g : Except Err Grouping) :
    Except String (Except Err Out) :=
  match g with
  | .error e => pure (.error e)
  | .ok g =>
    match a with
    | "count" => pure (countOf ks g)
    | "distinct" => pure (distinctOf ks g)
    | _ =>
      match aggOf a with
      | some agg => pure (GroupBy.aggOf v agg ks g ts)
      | none => throw s!"bad agg {a}"

/-- `groupby`: the answer of the model for the requested variant (default: every fix applied, `groupbyCols`) under
    `ok`/`err`; under `stacked` the answer of the same tree with D20 as found (`groupbyStacked`: key columns stacked into
    one array, per-column cast) — the harness accepts it only while finding D20 is listed open -/
def handle : Driver.Handler := fun op j =>
  match op with
  | "groupby" => some do
    let v := variantOf j
    let a ← Driver.get? String j "agg"
    let hint ← Driver.get? Bool j "hint"
    let ks ← (← Driver.get? (List Json) j "keys").mapM keyOf
    let ts ← (← Driver.get? (List Json) j "targets").mapM targetOf
    let r ← finish v a ks ts (groupby v ks hint)
    let r' ← finish v a ks ts (groupbyStacked v ks hint)
    pure <| (Driver.outE outJson r).setObjVal! "stacked" (Driver.outE outJson r')
  | "aggregate" => some do
    let v := variantOf j
    let a ← Driver.get? String j "fn"
    let idx ← columnOf (← Driver.get? Json j "index")
    let tgt : Option (List Int) := (j.getObjValAs? (List Int) "target").toOption
    match a with
    | "count" => pure <| Driver.outE Driver.ints (aggregateCount v idx)
    | _ =>
      let some agg := aggOf a | throw s!"bad fn {a}"
      pure <| Driver.outE Driver.ints (aggregate v agg idx tgt)
  | _ => none

end Driver.C07
