import Exetera.Spec.Journal
/-! Pure facts about the journalling specification: the key union is the strictly ascending list of the keys, and how
    `keyUnion`, `positions`, `indices`, `toKeep`, `plan` grow when a block of the greatest key is appended to both tables. -/
namespace Exetera.Spec.Journal

theorem sorted_ext : ∀ {l₁ l₂ : List Int}, l₁.Pairwise (· < ·) → l₂.Pairwise (· < ·) → (∀ x, x ∈ l₁ ↔ x ∈ l₂) → l₁ = l₂
  | [], [], _, _, _ => rfl
  | [], b :: u, _, _, h => by have := (h b).2 (by simp); simp at this
  | a :: t, [], _, _, h => by have := (h a).1 (by simp); simp at this
  | a :: t, b :: u, h₁, h₂, h => by
    rw [List.pairwise_cons] at h₁ h₂
    have hab : a = b := by
      have ha := (h a).1 (by simp)
      have hb := (h b).2 (by simp)
      simp only [List.mem_cons] at ha hb
      rcases ha with ha | ha
      · exact ha
      · rcases hb with hb | hb
        · exact hb.symm
        · have := h₁.1 b hb; have := h₂.1 a ha; omega
    subst hab
    congr 1
    apply sorted_ext h₁.2 h₂.2
    intro x
    constructor
    · intro hx
      have := (h x).1 (by simp [hx])
      simp only [List.mem_cons] at this
      rcases this with rfl | this
      · have := h₁.1 x hx; omega
      · exact this
    · intro hx
      have := (h x).2 (by simp [hx])
      simp only [List.mem_cons] at this
      rcases this with rfl | this
      · have := h₂.1 x hx; omega
      · exact this

theorem mem_insertKey {k x : Int} : ∀ {l : List Int}, x ∈ insertKey k l ↔ x = k ∨ x ∈ l
  | [] => by simp [insertKey]
  | y :: ys => by
    unfold insertKey
    split
    · simp
    · split
      · rename_i h; subst h; simp
      · simp only [List.mem_cons, mem_insertKey (l := ys)]
        constructor
        · rintro (h | h | h) <;> simp [h]
        · rintro (h | h | h) <;> simp [h]

theorem insertKey_sorted {k : Int} : ∀ {l : List Int}, l.Pairwise (· < ·) → (insertKey k l).Pairwise (· < ·)
  | [], _ => by simp [insertKey]
  | y :: ys, h => by
    unfold insertKey
    rw [List.pairwise_cons] at h
    split
    · rename_i hk
      rw [List.pairwise_cons, List.pairwise_cons]
      refine ⟨?_, h⟩
      intro z hz
      simp only [List.mem_cons] at hz
      rcases hz with rfl | hz
      · exact hk
      · have := h.1 z hz; omega
    · split
      · rw [List.pairwise_cons]; exact h
      · rename_i h1 h2
        rw [List.pairwise_cons]
        refine ⟨?_, insertKey_sorted h.2⟩
        intro z hz
        rw [mem_insertKey] at hz
        rcases hz with rfl | hz
        · omega
        · exact h.1 z hz

theorem foldr_insertKey_sorted : ∀ (l : List Int), (l.foldr insertKey []).Pairwise (· < ·)
  | [] => by simp
  | x :: xs => by simpa using insertKey_sorted (foldr_insertKey_sorted xs)

theorem mem_foldr_insertKey {x : Int} : ∀ {l : List Int}, x ∈ l.foldr insertKey [] ↔ x ∈ l
  | [] => by simp
  | y :: ys => by simp [mem_insertKey, mem_foldr_insertKey (l := ys)]

theorem keyUnion_sorted (o n : List Int) : (keyUnion o n).Pairwise (· < ·) := foldr_insertKey_sorted _

theorem mem_keyUnion {x : Int} {o n : List Int} : x ∈ keyUnion o n ↔ x ∈ o ∨ x ∈ n := by
  unfold keyUnion
  rw [mem_foldr_insertKey, List.mem_append]

theorem sorted_subset_length : ∀ {l₂ l₁ : List Int}, l₁.Pairwise (· < ·) → l₂.Pairwise (· < ·) →
    (∀ x, x ∈ l₁ → x ∈ l₂) → l₁.length ≤ l₂.length
  | [], l₁, _, _, h => by
    cases l₁ with
    | nil => simp
    | cons a t => have := h a (by simp); simp at this
  | b :: u, [], _, _, _ => by simp
  | b :: u, a :: t, h₁, h₂, h => by
    have h₁' := List.pairwise_cons.1 h₁
    have h₂' := List.pairwise_cons.1 h₂
    have ha := h a (by simp)
    rw [List.mem_cons] at ha
    rcases ha with rfl | ha
    · have : t.length ≤ u.length := by
        apply sorted_subset_length h₁'.2 h₂'.2
        intro x hx
        have := h x (by simp [hx])
        rw [List.mem_cons] at this
        rcases this with rfl | this
        · have := h₁'.1 x hx; omega
        · exact this
      simp only [List.length_cons]; omega
    · have : (a :: t).length ≤ u.length := by
        apply sorted_subset_length h₁ h₂'.2
        intro x hx
        have hxl := h x hx
        rw [List.mem_cons] at hxl
        rcases hxl with rfl | hxl
        · rw [List.mem_cons] at hx
          rcases hx with rfl | hx
          · exact ha
          · have := h₁'.1 x hx; have := h₂'.1 a ha; omega
        · exact hxl
      simp only [List.length_cons] at this ⊢; omega

theorem keyUnion_length_mono {o₁ n₁ o₂ n₂ : List Int} (h : ∀ x, x ∈ o₁ ∨ x ∈ n₁ → x ∈ o₂ ∨ x ∈ n₂) :
    (keyUnion o₁ n₁).length ≤ (keyUnion o₂ n₂).length :=
  sorted_subset_length (keyUnion_sorted _ _) (keyUnion_sorted _ _)
    (fun x hx => mem_keyUnion.2 (h x (mem_keyUnion.1 hx)))

theorem indices_length (o n : List Int) :
    (indices o n).1.length = (keyUnion o n).length ∧ (indices o n).2.length = (keyUnion o n).length := by
  simp [indices]

/-- the last block of a table: `m` old versions of key `k`, and the snapshot row of `k` iff `b` -/
def snocNew (n : List Int) (b : Bool) (k : Int) : List Int := n ++ (if b then [k] else [])

theorem keyUnion_snoc {o n : List Int} {k : Int} {m : Nat} {b : Bool}
    (hlt : ∀ x, x ∈ o ∨ x ∈ n → x < k) (hmb : 0 < m ∨ b = true) :
    keyUnion (o ++ List.replicate m k) (snocNew n b k) = keyUnion o n ++ [k] := by
  apply sorted_ext (keyUnion_sorted _ _)
  · rw [List.pairwise_append]
    refine ⟨keyUnion_sorted _ _, by simp, ?_⟩
    intro x hx y hy
    simp only [List.mem_singleton] at hy
    subst hy
    exact hlt x (mem_keyUnion.1 hx)
  · intro x
    simp only [mem_keyUnion, snocNew, List.mem_append, List.mem_replicate, List.mem_singleton]
    constructor
    · rintro ((h | ⟨_, h⟩) | (h | h))
      · exact Or.inl (Or.inl h)
      · exact Or.inr h
      · exact Or.inl (Or.inr h)
      · cases b <;> simp at h
        exact Or.inr h
    · rintro ((h | h) | h)
      · exact Or.inl (Or.inl h)
      · exact Or.inr (Or.inl h)
      · rcases hmb with hm | hb
        · exact Or.inl (Or.inr ⟨by omega, h⟩)
        · subst hb; exact Or.inr (Or.inr (by simp [h]))


/-! ### positions -/

theorem positionsFrom_append (k : Int) : ∀ (a b : List Int) (base : Nat),
    positionsFrom k base (a ++ b) = positionsFrom k base a ++ positionsFrom k (base + a.length) b
  | [], b, base => by simp [positionsFrom]
  | x :: xs, b, base => by
    simp only [List.cons_append, positionsFrom, List.length_cons]
    rw [positionsFrom_append k xs b (base + 1)]
    have : base + 1 + xs.length = base + (xs.length + 1) := by omega
    rw [this]
    split <;> simp

theorem positionsFrom_of_not_mem {k : Int} : ∀ {a : List Int} {base : Nat}, k ∉ a → positionsFrom k base a = []
  | [], _, _ => rfl
  | x :: xs, base, h => by
    simp only [List.mem_cons, not_or] at h
    simp only [positionsFrom]
    rw [if_neg (fun e => h.1 e.symm)]
    exact positionsFrom_of_not_mem h.2

theorem positionsFrom_replicate (k : Int) : ∀ (m base : Nat), positionsFrom k base (List.replicate m k) = List.range' base m
  | 0, _ => rfl
  | m + 1, base => by
    simp only [List.replicate_succ, positionsFrom, if_true, List.range'_succ]
    rw [positionsFrom_replicate k m (base + 1)]

theorem positionsFrom_replicate_ne {k k' : Int} (h : k' ≠ k) (m base : Nat) :
    positionsFrom k' base (List.replicate m k) = [] :=
  positionsFrom_of_not_mem (by simp [List.mem_replicate]; intro _ e; exact h e)

theorem positions_snoc_self {k : Int} {o : List Int} (m : Nat) (hk : k ∉ o) :
    positions k (o ++ List.replicate m k) = List.range' o.length m := by
  unfold positions
  rw [positionsFrom_append, positionsFrom_of_not_mem hk, positionsFrom_replicate]
  simp

theorem positions_snoc_other {k k' : Int} (o : List Int) (m : Nat) (h : k' ≠ k) :
    positions k' (o ++ List.replicate m k) = positions k' o := by
  unfold positions
  rw [positionsFrom_append, positionsFrom_replicate_ne h]
  simp

theorem positions_snocNew_self {k : Int} {n : List Int} (b : Bool) (hk : k ∉ n) :
    positions k (snocNew n b k) = if b then [n.length] else [] := by
  unfold positions snocNew
  rw [positionsFrom_append, positionsFrom_of_not_mem hk]
  cases b <;> simp [positionsFrom]

theorem positions_snocNew_other {k k' : Int} (n : List Int) (b : Bool) (h : k' ≠ k) :
    positions k' (snocNew n b k) = positions k' n := by
  unfold positions snocNew
  rw [positionsFrom_append]
  cases b
  · simp [positionsFrom]
  · simp [positionsFrom, h.symm]

/-- last row of the appended block of `m` old versions -/
def lastOld (o : List Int) (m : Nat) : Option Nat := if m = 0 then none else some (o.length + m - 1)

/-- row of the appended snapshot entry -/
def newRow (n : List Int) (b : Bool) : Option Nat := if b then some n.length else none

theorem getLast?_range' (base m : Nat) : (List.range' base m).getLast? = if m = 0 then none else some (base + m - 1) := by
  cases m with
  | zero => simp
  | succ m => rw [List.range'_1_concat]; simp

theorem head?_newRow (n : List Int) (b : Bool) : (if b then [n.length] else []).head? = newRow n b := by
  cases b <;> simp [newRow]

/-! ### appending the block of the greatest key -/

section snoc
variable {o n : List Int} {k : Int} {m : Nat} {b : Bool}

theorem snoc_positions (hlt : ∀ x, x ∈ o ∨ x ∈ n → x < k) :
    (∀ k', k' ∈ keyUnion o n → positions k' (o ++ List.replicate m k) = positions k' o ∧
        positions k' (snocNew n b k) = positions k' n) ∧
    (positions k (o ++ List.replicate m k)).getLast? = lastOld o m ∧
    (positions k (snocNew n b k)).head? = newRow n b ∧
    positions k (o ++ List.replicate m k) = List.range' o.length m := by
  have hko : k ∉ o := fun h => by have := hlt k (Or.inl h); omega
  have hkn : k ∉ n := fun h => by have := hlt k (Or.inr h); omega
  refine ⟨?_, ?_, ?_, positions_snoc_self m hko⟩
  · intro k' hk'
    have : k' ≠ k := by have := hlt k' (mem_keyUnion.1 hk'); omega
    exact ⟨positions_snoc_other o m this, positions_snocNew_other n b this⟩
  · rw [positions_snoc_self m hko, getLast?_range']; rfl
  · rw [positions_snocNew_self b hkn, head?_newRow]

theorem indices_snoc (hlt : ∀ x, x ∈ o ∨ x ∈ n → x < k) (hmb : 0 < m ∨ b = true) :
    indices (o ++ List.replicate m k) (snocNew n b k) =
      ((indices o n).1 ++ [idxOr (lastOld o m)], (indices o n).2 ++ [idxOr (newRow n b)]) := by
  obtain ⟨h1, h2, h3, _⟩ := snoc_positions (m := m) (b := b) hlt
  unfold indices
  rw [keyUnion_snoc hlt hmb]
  simp only [List.map_append, List.map_cons, List.map_nil, h2, h3]
  congr 2
  · apply List.map_congr_left; intro k' hk'; rw [(h1 k' hk').1]
  · apply List.map_congr_left; intro k' hk'; rw [(h1 k' hk').2]

theorem toKeep_snoc (d : Nat → Nat → Bool) (hlt : ∀ x, x ∈ o ∨ x ∈ n → x < k) (hmb : 0 < m ∨ b = true) :
    toKeep (o ++ List.replicate m k) (snocNew n b k) d = toKeep o n d ++ [keepFlag d (newRow n b) (lastOld o m)] := by
  obtain ⟨h1, h2, h3, _⟩ := snoc_positions (m := m) (b := b) hlt
  unfold toKeep
  rw [keyUnion_snoc hlt hmb]
  simp only [List.map_append, List.map_cons, List.map_nil, h2, h3]
  congr 1
  apply List.map_congr_left; intro k' hk'; rw [(h1 k' hk').1, (h1 k' hk').2]

theorem plan_snoc (d : Nat → Nat → Bool) (hlt : ∀ x, x ∈ o ∨ x ∈ n → x < k) (hmb : 0 < m ∨ b = true) :
    plan (o ++ List.replicate m k) (snocNew n b k) d =
      plan o n d ++ ((List.range' o.length m).map .old ++ newPart d (newRow n b) (lastOld o m)) := by
  obtain ⟨h1, h2, h3, h4⟩ := snoc_positions (m := m) (b := b) hlt
  unfold plan
  rw [keyUnion_snoc hlt hmb, List.flatMap_append]
  congr 1
  · simp only [List.flatMap_def]
    congr 1
    apply List.map_congr_left; intro k' hk'
    unfold block
    rw [(h1 k' hk').1, (h1 k' hk').2]
  · rw [h4] at h2
    simp only [List.flatMap_cons, List.flatMap_nil, List.append_nil, block, h2, h3, h4]

end snoc


/-! ### every (ascending, strictly ascending) pair of key columns is built by appending greatest-key blocks -/

theorem exists_max : ∀ (l : List Int), l ≠ [] → ∃ k, k ∈ l ∧ ∀ x, x ∈ l → x ≤ k
  | [], h => absurd rfl h
  | [a], _ => ⟨a, by simp, by simp⟩
  | a :: b :: t, _ => by
    obtain ⟨k, hk, hmax⟩ := exists_max (b :: t) (by simp)
    by_cases h : a ≤ k
    · refine ⟨k, by simp [hk], ?_⟩
      intro x hx
      rw [List.mem_cons] at hx
      rcases hx with rfl | hx
      · exact h
      · exact hmax x hx
    · refine ⟨a, by simp, ?_⟩
      intro x hx
      rw [List.mem_cons] at hx
      rcases hx with rfl | hx
      · omega
      · have := hmax x hx; omega

theorem sorted_split_max {k : Int} : ∀ {l : List Int}, l.Pairwise (· ≤ ·) → (∀ x, x ∈ l → x ≤ k) →
    l = l.filter (· < k) ++ List.replicate (l.count k) k
  | [], _, _ => by simp
  | a :: t, hs, hk => by
    rw [List.pairwise_cons] at hs
    have ih := sorted_split_max hs.2 (fun x hx => hk x (by simp [hx]))
    have hak := hk a (by simp)
    by_cases h : a < k
    · have hne : ¬ (a == k) = true := by simp; omega
      rw [List.filter_cons_of_pos (by simpa using h), List.count_cons, if_neg hne, List.cons_append, Nat.add_zero, ← ih]
    · have hak' : a = k := by omega
      subst hak'
      have hall : ∀ x, x ∈ t → x = a := by
        intro x hx
        have := hs.1 x hx; have := hk x (by simp [hx]); omega
      have ht : t = List.replicate t.length a := List.eq_replicate_iff.2 ⟨rfl, hall⟩
      have hf : (a :: t).filter (· < a) = [] := by
        rw [List.filter_eq_nil_iff]
        intro x hx
        rw [List.mem_cons] at hx
        rcases hx with rfl | hx
        · simp
        · rw [hall x hx]; simp
      have hc : (a :: t).count a = t.length + 1 := by
        rw [List.count_cons_self]
        congr 1
        conv => lhs; rw [ht]
        simp
      rw [hf, hc, List.nil_append, List.replicate_succ]
      congr 1

theorem sorted_filter_lt {k : Int} {l : List Int} (h : l.Pairwise (· ≤ ·)) : (l.filter (· < k)).Pairwise (· ≤ ·) :=
  h.filter _

theorem count_le_one_of_strict {k : Int} : ∀ {l : List Int}, l.Pairwise (· < ·) → l.count k ≤ 1
  | [], _ => by simp
  | a :: t, h => by
    rw [List.pairwise_cons] at h
    rw [List.count_cons]
    have ih := count_le_one_of_strict (k := k) h.2
    by_cases hak : a = k
    · subst hak
      have : t.count a = 0 := by
        rw [List.count_eq_zero]
        intro hm; have := h.1 a hm; omega
      simp [this]
    · have : ¬ (a == k) = true := by simpa using hak
      rw [if_neg this]; omega

theorem strict_le {l : List Int} (h : l.Pairwise (· < ·)) : l.Pairwise (· ≤ ·) :=
  h.imp (fun hab => Int.le_of_lt hab)

/-- induction over a pair (old keys ascending, snapshot keys strictly ascending) by appending the block of the greatest key -/
theorem sortedPair_induction (P : List Int → List Int → Prop) (nil : P [] [])
    (snoc : ∀ (o n : List Int) (k : Int) (m : Nat) (b : Bool), (∀ x, x ∈ o ∨ x ∈ n → x < k) → (0 < m ∨ b = true) →
      o.Pairwise (· ≤ ·) → n.Pairwise (· < ·) → P o n → P (o ++ List.replicate m k) (snocNew n b k)) :
    ∀ (N : Nat) (old new : List Int), old.length + new.length ≤ N → old.Pairwise (· ≤ ·) → new.Pairwise (· < ·) → P old new := by
  intro N
  induction N with
  | zero =>
    intro old new hN _ _
    have h1 : old = [] := List.eq_nil_of_length_eq_zero (by omega)
    have h2 : new = [] := List.eq_nil_of_length_eq_zero (by omega)
    subst h1; subst h2; exact nil
  | succ N ih =>
    intro old new hN ho hn
    by_cases hemp : old ++ new = []
    · have h1 : old = [] := (List.append_eq_nil_iff.1 hemp).1
      have h2 : new = [] := (List.append_eq_nil_iff.1 hemp).2
      subst h1; subst h2; exact nil
    · obtain ⟨k, hk, hmax⟩ := exists_max _ hemp
      have hmo : ∀ x, x ∈ old → x ≤ k := fun x hx => hmax x (by simp [hx])
      have hmn : ∀ x, x ∈ new → x ≤ k := fun x hx => hmax x (by simp [hx])
      have eo := sorted_split_max ho hmo
      have en := sorted_split_max (strict_le hn) hmn
      have hc := count_le_one_of_strict (k := k) hn
      have en' : new = snocNew (new.filter (· < k)) (new.count k == 1) k := by
        unfold snocNew
        have : new.count k = 0 ∨ new.count k = 1 := by omega
        rcases this with h | h
        · rw [h] at en; simpa [h] using en
        · rw [h] at en; simpa [h] using en
      have hpos : 0 < old.count k ∨ (new.count k == 1) = true := by
        rw [List.mem_append] at hk
        rcases hk with hk | hk
        · exact Or.inl (List.count_pos_iff.2 hk)
        · have := List.count_pos_iff.2 hk
          right; simp; omega
      have hlt : ∀ x, x ∈ old.filter (· < k) ∨ x ∈ new.filter (· < k) → x < k := by
        intro x hx
        rcases hx with hx | hx <;> simpa using (List.mem_filter.1 hx).2
      have hlen : (old.filter (· < k)).length + (new.filter (· < k)).length ≤ N := by
        have h1 := congrArg List.length eo
        have h2 := congrArg List.length en
        simp only [List.length_append, List.length_replicate] at h1 h2
        rcases hpos with h | h
        · omega
        · have : new.count k = 1 := by simpa using h
          omega
      have := snoc _ _ k (old.count k) (new.count k == 1) hlt hpos (ho.filter _) (hn.filter _)
        (ih _ _ hlen (ho.filter _) (hn.filter _))
      rw [← eo, ← en'] at this
      exact this

end Exetera.Spec.Journal
