"""C02 — DataFrame.merge returns the relational join; truthful hints change speed, never content.
API-level correspondence: the real `dataframe.merge` on HDF5-in-BytesIO frames (numeric, fixed-string, categorical, timestamp
and indexed-string payloads; single and compound keys; field subsets; name clashes) for the 4 modes x truthful hint
combinations, with the streamed generators and mapping streams wrapped from outside to inject small chunk sizes.
The Lean model (Model/Merge.lean) predicts the destination frame; the oracle below is the relational join itself."""
import itertools

PROPERTY = "C02"
LEVEL = "proof"
LEAN_MODULES = ["Exetera.Props.C02", "Exetera.Props.C04", "Exetera.Witness.C02"]
EXHAUSTIVE = {"quick": False, "thorough": True}
CASE_TIMEOUT = 30
TECHNIQUE = "Lean 4 theorems (merge = relational join as a corollary of the streamed-join and column-mapping theorems + dispatch model) + API-level differential run of DataFrame.merge with injected chunk sizes"
LEVEL_TEXT = ("Proof on the model, whole frame (merge_frame_correct_partial, hints_irrelevant_partial, never_raises_on_truthful_hints_partial over "
              "`merge pandas i cs vf fuel`; full statements since fix NC02c, also registered as merge_frame_correct / hints_irrelevant / never_raises_on_truthful_hints): "
              "for left/right/inner/outer, every truthful hint combination, all well-formed frames (single/compound keys, field subsets, name "
              "clashes, every field type incl. indexed strings) and every chunk size >= 1 the modelled merge passes its validators, succeeds, and "
              "its destination is the table of a row list that is a permutation of the relational join (each mapped field under its documented "
              "name = the selected source rows, empty value where unmatched; all destination columns of equal length); on the ordered path the "
              "rows are the relational join in key order; the hinted and the hint-free call give permuted row lists; a clash among destination "
              "names is rejected up front whatever the hints (name_clash_rejected, fix NC02b). pandas.merge (unordered path) is a parameter "
              "assumed to return a permutation of the relational join.")
LEVEL_NOTE = ("No hypothesis about indexed-string entry lengths any more: fix NC02c lets ordered_map_valid_indexed_stream size its value buffer for "
              "the longest entry of the source (model: MapValid.autoValueFactor; lemma entries_fit_auto), so a truthful hint no longer raises for "
              "an entry above chunksize*value_factor; the as-found behaviour is kept as Witness.C02.nc02c_long_entry_raises_only_with_hints. "
              "Hypotheses of the theorems (WellFormed/TruthfulHints/PandasOK in Props/C02.lean): destination names pairwise distinct incl. the "
              "four names merge reserves (the code's own guard since fix NC02b); < 2^62 rows per side; fuel >= |lk|+|rk|+2|join|+1; lk/rk are an order embedding of the key tuples (tied to the "
              "key columns by the harness, not by a theorem). Trusted: Lean kernel; the hand-written merge model (validated against the real "
              "DataFrame.merge on every enumerated frame pair x mode x truthful hints x injected chunk size, whole destination frame compared); "
              "pandas.merge (the permutation assumption is checked on every case that uses it), h5py.")
RULE = ("frames: key column(s) over a 3-value alphabet (sorted when an ordered hint is given, duplicate-free when a unique hint is given), "
        "payload columns of every field type incl. a name clash; exhaustive over key columns of length <= 3 (quick: seeded sample of them) x "
        "4 modes x truthful hint combinations x chunk sizes {1,2,3,1<<20} — every such case that takes the ordered path (thorough), a seeded sample of 5000 of those that take the pandas path; plus seeded random frames up to 40 rows; plus a malformed stream (every validation error); plus destination-name clashes (a source field named _left_map/_right_map/valid_l/valid_r or a duplicate suffixed name, mapped and unmapped, x modes x hints); plus long indexed-string entries around the injected value buffer (NC02c). Non-trivial = at least one "
        "matched and one unmatched row or a duplicate key; distinct = distinct case dict.")
ASSUMPTIONS = ["pandas.merge returns the relational join with NaN-marked misses (unordered path)", "h5py stores arrays faithfully"]
TRUSTED = ["Lean 4.33 kernel", "axioms propext/Classical.choice/Quot.sound only", "checks/harness/c02.py"]

HOWS = ["left", "right", "inner", "outer"]


def sorted_seqs(k, n):
    out = []
    for ln in range(n + 1):
        out.extend(list(c) for c in itertools.combinations_with_replacement(range(k), ln))
    return out


def all_seqs(k, n):
    out = []
    for ln in range(n + 1):
        out.extend(list(c) for c in itertools.product(range(k), repeat=ln))
    return out


def hint_combos(lk, rk):
    """truthful combinations of (left ordered, left unique, right ordered, right unique)"""
    lo, ro = lk == sorted(lk), rk == sorted(rk)
    lu, ru = len(set(lk)) == len(lk), len(set(rk)) == len(rk)
    out = []
    for a in ([None, True] if lo else [None]):
        for b in ([None, True] if lu else [None]):
            for c in ([None, True] if ro else [None]):
                for d in ([None, True] if ru else [None]):
                    out.append([a, b, c, d])
    return out


SUBSETS = [True, "left_empty", True, "right_empty"]     # (both lists empty leaves a destination without columns: nothing to observe)


def mk(lk, rk, how, hints, cs, n, compound=False, subset=False, kdtype="int32", mal=None, extra=None):
    c = {"op": "merge", "lk": lk, "rk": rk, "how": how, "hints": hints, "cs": cs, "compound": compound,
         "subset": subset, "kdtype": kdtype, "_n": n}
    if mal:
        c["mal"] = mal
    if extra:
        c["extra"] = list(extra)        # [side, name]: one more int32 column on that side
    return c


MALFORMED = ["how", "cross", "nokey", "nofield", "idxkey", "tuplemix", "tuplelen", "lenmix"]


def malformed_cases():
    """the error branches of merge(): every validation error, with and without the ordered hints"""
    out = []
    n = 900000
    for mal in MALFORMED:
        for hints in ([None, None, None, None], [True, None, True, None]):
            for lk, rk in (([0, 1, 1], [1, 2]), ([], [])):
                n += 1
                out.append(mk(lk, rk, "bogus" if mal == "how" else ("cross" if mal == "cross" else "left"), hints, 2, n, mal=mal))
    return out


RESERVED = ["_left_map", "_right_map", "valid_l", "valid_r"]


def clash_cases():
    """NC02b: a source field named like one of the fields merge adds itself, or two mapped fields with the same destination
    name — with and without the ordered hints, every mode; plus the same frames with a field subset that leaves the
    offending field unmapped (no clash: must succeed)"""
    out = []
    n = 800000
    for side, name in [("l", r) for r in RESERVED] + [("r", r) for r in RESERVED] + [("l", "num_l"), ("r", "num_r")]:
        for how in HOWS:
            for hints in ([None, None, None, None], [True, None, True, None], [True, None, True, True]):
                for subset in (False, True):
                    n += 1
                    out.append(mk([0, 1, 1, 3], [1, 2, 3], how, hints, 2, n, subset=subset, extra=(side, name)))
    return out


VALUE_FACTOR = 8       # the floor of the value buffer ordered_map_valid_indexed_stream sizes for itself (fix NC02c)


def long_entry_cases():
    """NC02c: an indexed-string column whose entries (18+ bytes) exceed the streamed value buffer cs * VALUE_FACTOR for
    cs = 1 and fit it for cs >= 2 — with and without the ordered hints"""
    out = []
    n = 700000
    for side in ("l", "r"):
        for how in HOWS:
            for hints in ([None, None, None, None], [True, None, True, None], [True, True, True, None]):
                for cs in (1, 2, 1 << 20):
                    n += 1
                    out.append(mk([0, 1, 3], [1, 1, 2], how, hints, cs, n, extra=(side, "big")))
    return out


def long_entry_overflows(case):
    """does this case take the ordered path with an entry that does not fit the injected value buffer?"""
    ex = case.get("extra")
    if not (ex and ex[1].startswith("big") and is_ordered_path(case)) or case["cs"] >= (1 << 20) or case.get("subset"):
        return False
    n = len(case["lk"] if ex[0] == "l" else case["rk"])
    maps = {"left": ("r",), "right": ("l",), "inner": ("l", "r")}[case["how"]]      # sides that go through a map field
    uniq = (case["hints"][3] if case["how"] == "left" else case["hints"][1]) if case["how"] != "inner" else None
    mapped = ex[0] in maps or not uniq      # the driving side is copied (no stream) only when the other side is hinted unique
    return bool(mapped and n and 18 + n - 1 > case["cs"] * VALUE_FACTOR)


def gen_cases(tier, rng):
    from checks import corpus
    cases = list(corpus.load("C02"))
    cases.extend(malformed_cases())
    cl = clash_cases()
    cases.extend(cl if tier != "quick" else rng.sample(cl, 60))
    le = long_entry_cases()
    cases.extend(le if tier != "quick" else rng.sample(le, 30))
    n = 0
    allc = []
    seqs = all_seqs(3, 3)
    for lk in seqs:
        for rk in seqs:
            for how in HOWS:
                for hints in hint_combos(lk, rk):
                    ordered = hints[0] and hints[2] and how != "outer"
                    for cs in ([1, 2, 3, 1 << 20] if ordered else [1 << 20]):
                        n += 1
                        allc.append(mk(lk, rk, how, hints, cs, n, compound=(n % 13 == 0),
                                       subset=(SUBSETS[(n // 7) % len(SUBSETS)] if n % 7 == 0 else False),
                                       kdtype="int32" if n % 3 else "S2"))
    ordered = [c for c in allc if is_ordered_path(c)]
    other = [c for c in allc if not is_ordered_path(c)]
    if tier == "quick":
        cases.extend(rng.sample(ordered, min(len(ordered), 700)))
        cases.extend(rng.sample(other, min(len(other), 250)))
    else:
        # the ordered path (the streamed code the property is about) exhaustively; the pandas path by a seeded sample
        cases.extend(ordered)
        cases.extend(rng.sample(other, min(len(other), 5000)))
    # seeded random larger frames
    for t in range(50 if tier == "quick" else 1000):
        ordered = rng.random() < 0.7
        lu, ru = rng.random() < 0.3, rng.random() < 0.3
        lk = rand_keys(rng, rng.randrange(0, 40), ordered, lu)
        rk = rand_keys(rng, rng.randrange(0, 40), ordered, ru)
        how = rng.choice(HOWS)
        hints = rng.choice(hint_combos(lk, rk))
        n += 1
        cases.append(mk(lk, rk, how, hints, rng.choice([1, 2, 3, 5, 8, 1 << 20]), n, compound=False,
                        subset=rng.choice(SUBSETS) if rng.random() < 0.25 else False))
    # explicitly empty field lists for every mode, with and without the ordered hints (always part of the run)
    for how in HOWS:
        for hints in ([None, None, None, None], [True, None, True, None]):
            for sub in ("left_empty", "right_empty"):
                n += 1
                cases.append(mk([0, 1, 1, 3], [1, 2, 3], how, hints, 2, n, subset=sub))
    return cases


def rand_keys(rng, n, ordered, unique):
    if unique:
        xs = rng.sample(range(0, max(n * 2, 1) + 3), n)
    else:
        xs = [rng.randrange(0, max(2, n // 2 + 1)) for _ in range(n)]
    return sorted(xs) if ordered else xs


# ---------------------------------------------------------------------------------------------------------------
# the frames of a case (shared by impl and oracle): payloads are functions of (side, row number)
# ---------------------------------------------------------------------------------------------------------------

def payload(side, i):
    tag = 0 if side == "l" else 1
    return {
        "num": 10 * i + tag + 1,                               # int32, never 0 so that "empty" is visible
        "s": ["", "a", "bc", "d,e", "é", "xyzw"][(i + tag) % 6] + str(i),   # indexed string (non-empty)
        "f": (b"L%d" % i if side == "l" else b"R%d" % i),      # fixed string S3
        "c": 1 + (i + tag) % 2,                                # categorical {a:1, b:2}
        "t": float(1000 + 60 * i + tag),                       # timestamp
        "flag": True,                                          # bool
    }


LEFT_COLS = ["k", "num", "s", "f", "c", "t", "flag", "lonly"]
RIGHT_COLS = ["k", "num", "s", "f", "t", "ronly"]


def col_value(side, name, i):
    p = payload(side, i)
    if name.startswith("big"):
        return "y" * (18 + i)                                  # the long indexed-string `extra` column (NC02c): 18+ bytes
    if name not in p and name not in ("lonly", "ronly"):
        return 5 * i + 2                                       # the `extra` column of a case (int32, never 0)
    if name == "lonly":
        return 7 * i + 3
    if name == "ronly":
        return ["r%d" % i][0]
    return p[name]


def empty_of(name):
    return {"num": 0, "s": "", "f": b"", "c": 0, "t": 0.0, "flag": False, "lonly": 0, "ronly": "", "k": None, "k2": 0}.get(name, "" if name.startswith("big") else 0)


def key_tuple(case, side, i):
    ks = case["lk"] if side == "l" else case["rk"]
    return (ks[i], i % 1 if not case.get("compound") else 0)


def fields_of(case):
    lf, rf = list(LEFT_COLS), list(RIGHT_COLS)
    if case.get("compound"):
        lf.insert(1, "k2")
        rf.insert(1, "k2")
    if case.get("extra"):
        (lf if case["extra"][0] == "l" else rf).append(case["extra"][1])
    sub = case.get("subset")
    if sub == "left_empty":              # `left_fields=[]`: join NO field of the left frame (not the same as None = all of them)
        return lf, rf, [], None
    if sub == "right_empty":
        return lf, rf, None, []
    if sub == "both_empty":
        return lf, rf, [], []
    if sub:
        return lf, rf, ["num", "s", "lonly"], ["num", "f", "ronly"]
    return lf, rf, None, None


# ---------------------------------------------------------------------------------------------------------------
# implementation
# ---------------------------------------------------------------------------------------------------------------
_S = {}


RECYCLE_EVERY = 16      # cases per in-memory HDF5 dataset (~7 MB of chunk storage per case is never returned by h5py)


def _env():
    if not _S:
        import functools
        import numpy as np
        from exetera.core import operations as ops, dataframe, fields
        orig = {}
        for name in dir(ops):
            if (name.startswith("generate_ordered_map_to_") and name.endswith("_streamed")) or \
                    name in ("ordered_map_valid_stream", "ordered_map_valid_indexed_stream"):
                orig[name] = getattr(ops, name)
        _S.update(np=np, ops=ops, dataframe=dataframe, fields=fields, s=None, ds=None, k=0, orig=orig, functools=functools)
    if _S["s"] is None or _S["k"] % RECYCLE_EVERY == 0:
        # a fresh Session + BytesIO dataset; the old one is closed and its buffer released (bounded worker memory)
        import io
        import gc
        from exetera.core.session import Session
        if _S["s"] is not None:
            try:
                _S["s"].close()
            except Exception:
                pass
            _S["s"] = _S["ds"] = None
            gc.collect()
        s = Session()
        _S["s"], _S["ds"] = s, s.open_dataset(io.BytesIO(), "w", "ds")
    return _S


def set_chunks(e, cs):
    ops, orig = e["ops"], e["orig"]
    for name, fn in orig.items():
        if cs >= (1 << 20):
            setattr(ops, name, fn)
        else:
            # (the indexed stream is given no value_factor: since fix NC02c it sizes its value buffer itself, floor 8)
            setattr(ops, name, e["functools"].partial(fn, chunksize=cs))


def build(e, df, side, case):
    np = e["np"]
    ks = case["lk"] if side == "l" else case["rk"]
    n = len(ks)
    cols = fields_of(case)[0 if side == "l" else 1]
    for name in cols:
        if name == "k":
            if case.get("kdtype") == "S2":
                df.create_fixed_string("k", 2).data.write(np.array([b"%02d" % x for x in ks], dtype="S2"))
            else:
                df.create_numeric("k", "int32").data.write(np.array(ks, dtype="int32"))
        elif name == "k2":
            df.create_numeric("k2", "int32").data.write(np.zeros(n, dtype="int32"))
        elif name in ("num", "lonly"):
            m = n + 1 if (name == "lonly" and case.get("mal") == "lenmix") else n
            df.create_numeric(name, "int32").data.write(np.array([col_value(side, name, i) for i in range(m)], dtype="int32"))
        elif name in ("s", "ronly") or name.startswith("big"):
            df.create_indexed_string(name).data.write([col_value(side, name, i) for i in range(n)])
        elif name == "f":
            df.create_fixed_string(name, 3).data.write(np.array([col_value(side, name, i) for i in range(n)], dtype="S3"))
        elif name == "c":
            df.create_categorical(name, "int8", {"a": 1, "b": 2}).data.write(
                np.array([col_value(side, name, i) for i in range(n)], dtype="int8"))
        elif name == "t":
            df.create_timestamp(name).data.write(np.array([col_value(side, name, i) for i in range(n)], dtype="float64"))
        elif name == "flag":
            df.create_numeric(name, "bool").data.write(np.ones(n, dtype=bool))
        else:
            df.create_numeric(name, "int32").data.write(np.array([col_value(side, name, i) for i in range(n)], dtype="int32"))


def dump(df):
    out = {}
    for name in df.keys():
        f = df[name]
        cls = type(f).__name__
        d = f.data[:]
        if cls == "IndexedStringField":
            vals = list(d)
        elif cls == "FixedStringField":
            vals = [x.decode("latin-1") for x in d.tolist()]
        elif cls == "TimestampField":
            vals = [float(x) for x in d.tolist()]
        else:
            vals = d.tolist()
        meta = {"cls": cls, "n": len(vals)}
        if cls == "NumericField":
            meta["nformat"] = f._nformat if hasattr(f, "_nformat") else None
        if cls == "CategoricalField":
            meta["keys"] = {str(k): (v.decode() if isinstance(v, bytes) else v) for k, v in f.keys.items()}
        if cls == "FixedStringField":
            meta["strlen"] = int(d.dtype.itemsize)
        out[name] = {"vals": vals, **meta}
    return out


def mal_args(case, on, lsub):
    """(left_on, right_on, left_fields) of a case; the malformed stream bends one of them"""
    mal = case.get("mal")
    on_l = on_r = on
    if mal == "nokey":
        on_l = "zz"
    elif mal == "idxkey":
        on_l = "s"
    elif mal == "tuplemix":
        on_l = ("k",)
    elif mal == "tuplelen":
        on_l, on_r = ("k", "num"), ("k",)
    elif mal == "nofield":
        lsub = ["nope"]
    return on_l, on_r, lsub


def impl(case):
    e = _env()
    e["k"] += 1
    ds = e["ds"]
    ldf, rdf, ddf = (ds.create_dataframe(f"{x}{e['k']}") for x in "lrd")
    build(e, ldf, "l", case)
    build(e, rdf, "r", case)
    _, _, lsub, rsub = fields_of(case)
    set_chunks(e, case["cs"])
    h = case["hints"]
    on_l = ("k", "k2") if case.get("compound") else "k"
    on_l, on_r, lsub = mal_args(case, on_l, lsub)
    scratch = []
    if case.get("_n", 0) % 4 == 3 and not case.get("mal"):
        # the SAME frame objects were merged before (what a script that joins one table against several does): first a merge that
        # succeeds while every indexed-string column still holds empty entries; then the columns get their real entries (clear +
        # write through the same field objects); then a merge in ANOTHER join mode that is refused midway (its destination already
        # holds the last output column). The measured merge below must not notice any of it.
        kw = dict(left_fields=lsub, right_fields=rsub, how=case["how"], hint_left_keys_ordered=h[0], hint_left_keys_unique=h[1],
                  hint_right_keys_ordered=h[2], hint_right_keys_unique=h[3])
        real = []
        for df_ in (ldf, rdf):
            for nm in df_.keys():
                f = df_[nm]
                if type(f).__name__ == "IndexedStringField":
                    vals = list(f.data[:])
                    real.append((f, vals))
                    f.data.clear()
                    f.data.write(["" for _ in vals])
        try:
            d1 = ds.create_dataframe(f"q{e['k']}")
            scratch.append(d1)
            e["dataframe"].merge(ldf, rdf, d1, on_l, on_r, **kw)
        except Exception:  # noqa
            pass
        for f, vals in real:
            f.data.clear()
            f.data.write(vals)
        names = list(expected_names(case).values())
        try:
            d0 = ds.create_dataframe(f"p{e['k']}")
            scratch.append(d0)
            if names:
                d0.create_numeric(names[-1], "int32")
            e["dataframe"].merge(ldf, rdf, d0, on_l, on_r, **dict(kw, how=("inner" if case["how"] == "left" else "left")))
        except Exception:  # noqa
            pass
    try:
        e["dataframe"].merge(ldf, rdf, ddf, on_l, on_r, left_fields=lsub, right_fields=rsub, how=case["how"],
                             hint_left_keys_ordered=h[0], hint_left_keys_unique=h[1],
                             hint_right_keys_ordered=h[2], hint_right_keys_unique=h[3])
    finally:
        set_chunks(e, 1 << 20)
    out = dump(ddf)
    for d in [ldf, rdf, ddf] + scratch:
        try:
            ds.drop(d.name) if hasattr(ds, "drop") else None
        except Exception:
            pass
    return {"cols": out}


# ---------------------------------------------------------------------------------------------------------------
# the property's oracle: relational join as a multiset of (left row | empty, right row | empty)
# ---------------------------------------------------------------------------------------------------------------

def rel_join(case):
    lk, rk, how = case["lk"], case["rk"], case["how"]
    rows = []
    matched_r = set()
    for i, a in enumerate(lk):
        ms = [j for j, b in enumerate(rk) if b == a]
        for j in ms:
            rows.append((i, j))
            matched_r.add(j)
        if not ms and how in ("left", "outer"):
            rows.append((i, None))
    if how in ("right", "outer"):
        for j in range(len(rk)):
            if j not in matched_r:
                rows.append((None, j))
    if how == "right":
        rows = [r for r in rows if r[1] is not None]
    if how == "inner":
        rows = [r for r in rows if r[0] is not None and r[1] is not None]
    return rows


def canon_val(name, v):
    if isinstance(v, bytes):
        return v.decode("latin-1")
    if isinstance(v, float):
        return float(v)
    if isinstance(v, bool):
        return bool(v)
    return v


def expected_names(case):
    lf, rf, lsub, rsub = fields_of(case)
    lmap = lsub if lsub is not None else lf
    rmap = rsub if rsub is not None else rf
    names = {}
    for f in lmap:
        names[("l", f)] = f + "_l" if f in rmap else f
    for f in rmap:
        names[("r", f)] = f + "_r" if f in lmap else f
    return names


def side_val(case, side, name, i):
    if i is None:
        if name == "k":
            return "" if case.get("kdtype") == "S2" else 0
        return canon_val(name, empty_of(name))
    if name == "k":
        ks = case["lk"] if side == "l" else case["rk"]
        return ("%02d" % ks[i]) if case.get("kdtype") == "S2" else ks[i]
    if name == "k2":
        return 0
    return canon_val(name, col_value(side, name, i))


def check_spec(case, io, mode):
    if case.get("mal"):
        return None          # the property says nothing about rejected arguments (the correspondence compares the error)
    names = expected_names(case)
    dest = list(names.values())
    if len(set(dest + RESERVED)) != len(dest) + len(RESERVED) and "err" in io:
        # the destination names clash: the property grants no such frame, so a rejection is fine — provided it does not
        # depend on the hints. A clash with a name merge reserves for its own fields must be the up-front ValueError of fix
        # NC02b, not "already exists" on one path only (as found: '_left_map' raised with the ordered hints and succeeded
        # without them, 'valid_l' the converse). A call that succeeds is checked like any other below.
        if io["err"] != "value_error":
            return f"merge raised {io['err']}: {io.get('msg', '')}"
        if any(d in RESERVED for d in dest) and not str(io.get("msg", "")).startswith("merge would write more than one"):
            return (f"a source field named like one of merge's own fields makes the outcome depend on the hints (NC02b): "
                    f"hints={case['hints']} raised {io.get('msg', '')}")
        return None
    if "err" in io:
        return f"merge raised {io['err']}: {io.get('msg', '')}"
    cols = io["cols"]
    missing = [v for v in names.values() if v not in cols]
    if missing:
        return f"destination lacks columns {missing} (has {sorted(cols)})"
    lens = {c["n"] for c in cols.values()}
    if len(lens) > 1:
        return f"destination columns differ in length: { {k: c['n'] for k, c in cols.items()} }"
    rows = rel_join(case)
    order = sorted(names)
    want = sorted(tuple(repr(side_val(case, s, f, (r[0] if s == "l" else r[1]))) for (s, f) in order) for r in rows)
    n = next(iter(lens)) if lens else 0
    got = sorted(tuple(repr(canon_val(f, cols[names[(s, f)]]["vals"][x])) for (s, f) in order) for x in range(n))
    if got != want:
        return f"rows differ from the relational join ({case['how']}): got {got[:6]}… want {want[:6]}… (n={n} vs {len(want)})"
    h = case["hints"]
    if h[0] and h[2] and case["how"] in ("left", "right", "inner") and not case.get("compound"):
        # ordered path: keys non-decreasing (on the side that drives the join)
        drive = ("r", "k") if case["how"] == "right" else ("l", "k")
        ks = cols[names[drive]]["vals"] if drive in names else []
        if any(ks[x] > ks[x + 1] for x in range(len(ks) - 1)):
            return f"ordered merge result not in key order: {ks}"
    return None


def match_finding(case, io, mode):
    # NC02c: ordered path, an indexed-string entry longer than the streamed value buffer: the hinted call raises the clear
    # ValueError of ordered_map_valid_indexed_stream (the hint-free call succeeds)
    if long_entry_overflows(case) and io.get("err") == "value_error" and "does not fit the value buffer" in str(io.get("msg", "")):
        return "NC02c"
    return None


# ---------------------------------------------------------------------------------------------------------------
# what is sent to the Lean driver: the two frames as data, the key order embedding, and the value of the `pandas.merge`
# parameter on this input (the unordered path only)
# ---------------------------------------------------------------------------------------------------------------
MODEL_CS_CAP = 4096      # frames have <= 40 rows, joins <= 1600 rows: any chunk size above that is one chunk


def model_col(case, side, name, n):
    if name == "k":
        ks = case["lk"] if side == "l" else case["rk"]
        if case.get("kdtype") == "S2":
            return {"e": "", "v": ["%02d" % x for x in ks]}
        return {"e": 0, "v": list(ks)}
    if name == "k2":
        return {"e": 0, "v": [0] * n}
    if name in ("s", "ronly") or name.startswith("big"):
        bs = [col_value(side, name, i).encode("utf-8") for i in range(n)]
        ix = [0]
        for x in bs:
            ix.append(ix[-1] + len(x))
        return {"ix": ix, "vs": [c for x in bs for c in x]}
    m = n + 1 if (name == "lonly" and case.get("mal") == "lenmix") else n
    vals = [col_value(side, name, i) for i in range(m)]
    if name == "f":
        return {"e": "", "v": [v.decode("latin-1") for v in vals]}
    if name == "t":
        return {"e": 0, "v": [int(v) for v in vals]}
    if name == "flag":
        return {"e": False, "v": [bool(v) for v in vals]}
    return {"e": 0, "v": [int(v) for v in vals]}


_PD = {}


def is_ordered_path(case):
    h = case["hints"]
    return bool(h[0] and h[2] and case["how"] in ("left", "right", "inner") and not case.get("compound"))


def pandas_pairs(case):
    """exactly the pandas call of _unordered_merge; returns the (left row | None, right row | None) pairs in pandas' order"""
    key = (tuple(case["lk"]), tuple(case["rk"]), case["how"], case.get("kdtype"), bool(case.get("compound")))
    if key in _PD:
        return _PD[key]
    import numpy as np
    import pandas as pd
    import warnings

    def keycol(ks):
        if case.get("kdtype") == "S2":
            return np.array([b"%02d" % x for x in ks], dtype="S2")
        return np.array(ks, dtype="int32")
    ld, rd = {"l_k_0": keycol(case["lk"])}, {"r_k_0": keycol(case["rk"])}
    lkeys, rkeys = ["l_k_0"], ["r_k_0"]
    if case.get("compound"):
        ld["l_k_1"] = np.zeros(len(case["lk"]), dtype="int32")
        rd["r_k_1"] = np.zeros(len(case["rk"]), dtype="int32")
        lkeys.append("l_k_1")
        rkeys.append("r_k_1")
    ld["l_i"] = np.arange(len(case["lk"]), dtype=np.int32)
    rd["r_i"] = np.arange(len(case["rk"]), dtype=np.int32)
    with warnings.catch_warnings():
        warnings.simplefilter("ignore")
        df = pd.merge(left=pd.DataFrame(ld), right=pd.DataFrame(rd), left_on=tuple(lkeys), right_on=tuple(rkeys),
                      how=case["how"])
    out = [[None if pd.isnull(a) else int(a), None if pd.isnull(b) else int(b)] for a, b in zip(df["l_i"], df["r_i"])]
    # the recorded ASSUMPTION about pandas (hypothesis `hpd` of the C02 theorems), checked on every case it is used for
    k = lambda p: (-1 if p[0] is None else p[0], -1 if p[1] is None else p[1])  # noqa: E731
    if sorted(map(k, out)) != sorted(map(k, rel_join(case))):
        raise AssertionError(f"pandas.merge did not return the relational join on {case}")
    _PD[key] = out
    return out


def to_model(case):
    lf, rf, lsub, rsub = fields_of(case)
    on = ["k", "k2"] if case.get("compound") else ["k"]
    on_l, on_r, lsub = mal_args(case, tuple(on) if case.get("compound") else "k", lsub)

    def as_list(x):
        return list(x) if isinstance(x, tuple) else [x]
    m = {"op": "merge", "how": case["how"],
         "left": [[name, model_col(case, "l", name, len(case["lk"]))] for name in lf],
         "right": [[name, model_col(case, "r", name, len(case["rk"]))] for name in rf],
         "left_on": as_list(on_l), "right_on": as_list(on_r),
         "left_tuple": isinstance(on_l, tuple), "right_tuple": isinstance(on_r, tuple),
         "left_fields": lsub, "right_fields": rsub, "hints": case["hints"],
         "lk": list(case["lk"]), "rk": list(case["rk"]),
         "cs": min(case["cs"], MODEL_CS_CAP), "vf": 8, "pairs": None}
    if not is_ordered_path(case) and case["how"] in HOWS and not case.get("mal"):
        m["pairs"] = pandas_pairs(case)
    return m


def norm_cell(v):
    if isinstance(v, bool):
        return v
    if isinstance(v, bytes):
        return v.decode("latin-1")
    if isinstance(v, float):
        return int(v) if v == int(v) else v
    return v


def model_vals(col):
    if "ix" in col:
        ix, vs = col["ix"], bytes(col["vs"])
        return [vs[ix[i]:ix[i + 1]].decode("utf-8") for i in range(len(ix) - 1)]
    return col["v"]


def compare(case, io, mo, mode):
    """the whole destination frame: column names, every value of every column incl. _left_map/_right_map and valid_*"""
    if "bad" in mo:
        return f"model driver rejected the case: {mo['bad']}"
    if "err" in io or "err" in mo:
        a, b = io.get("err"), mo.get("err")
        return None if a == b else f"impl err={a} ({str(io.get('msg', ''))[:80]}) model err={b}"
    m = {k: model_vals(v) for k, v in mo["ok"]["cols"].items()}
    a = {k: [norm_cell(x) for x in v["vals"]] for k, v in io["cols"].items()}
    if sorted(a) != sorted(m):
        return f"column sets differ: impl {sorted(a)} model {sorted(m)}"
    for k in a:
        if a[k] != m[k] or [type(x) for x in a[k]] != [type(x) for x in m[k]]:
            return f"column {k}: impl {a[k][:8]} model {m[k][:8]}"
    return None


def nontrivial(case, mo):
    lk, rk = case["lk"], case["rk"]
    both = set(lk) & set(rk)
    return bool(both) and (bool(set(lk) ^ set(rk)) or len(set(lk)) < len(lk) or len(set(rk)) < len(rk))


def classify(case, mo):
    h = case["hints"]
    path = "ordered" if (h[0] and h[2] and case["how"] != "outer" and not case.get("compound")) else "unordered"
    tags = [case["how"], path, "hints:" + "".join("T" if x else "-" for x in h), "cs:%s" % ("big" if case["cs"] >= 1 << 20 else case["cs"])]
    if case.get("extra"):
        tags.append("extra:" + case["extra"][1])
    if long_entry_overflows(case):
        tags.append("NC02c")
    return tags


def select_for_mode(case, mode, tier):
    return case.get("_n", 0) % 12 == 0 and len(case["lk"]) + len(case["rk"]) <= 10
