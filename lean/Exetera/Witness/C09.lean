import Exetera.Model.FilterIndex
import Exetera.Spec.FilterIndex
/-!
  Witnesses of the defects found for C09, on the `asFound` variant of the model (the code before the fix patches).
  They stay in the tree: if a fix is lost, the correspondence matches `asFound` again and these are the replays
  (corpus/C09/defects.json holds the same inputs).
-/
namespace Exetera.Witness.C09
open Exetera Exetera.FilterIndex Exetera.Spec

/-- the field holds ["a", "", "ccc", "dé"] -/
def indices : List Nat := [0, 1, 1, 4, 7]
def values : List Nat := [97, 99, 99, 99, 100, 195, 169]

/-- D8: a filter longer than the field with a set flag beyond the end subscripts `next_[4]` of a 4-element array
    (in the compiled kernel: an out-of-bounds read whose garbage becomes a length) -/
theorem d8_long_filter_reads_out_of_bounds :
    applyFilterToIndexValues .asFound [true, false, true, true, true] indices values = .error (.oob "next_[i]") := by rfl

/-- D8: if the surplus flags are all false the mismatch goes unnoticed -/
theorem d8_long_filter_accepted_silently :
    applyFilterToIndexValues .asFound [true, false, true, true, false, false] indices values =
      .ok ([0, 1, 4, 7], [97, 99, 99, 99, 100, 195, 169]) ∧
    (Column.strs [[97], [], [99, 99, 99], [100, 195, 169]]).filter [true, false, true, true, false, false] = none := by
  constructor <;> rfl

/-- NC09a: a filter shorter than the field silently drops the trailing entries although the spec is undefined -/
theorem nc09a_short_filter_truncates :
    applyFilterToIndexValues .asFound [true, false] indices values = .ok ([0, 1], [97]) ∧
    (Column.strs [[97], [], [99, 99, 99], [100, 195, 169]]).filter [true, false] = none := by
  constructor <;> rfl

/-- the repaired kernel rejects all three -/
theorem repaired_rejects :
    applyFilterToIndexValues .repaired [true, false, true, true, true] indices values =
      .error (.oob "len(index_filter) != len(indices) - 1") ∧
    applyFilterToIndexValues .repaired [true, false, true, true, false, false] indices values =
      .error (.oob "len(index_filter) != len(indices) - 1") ∧
    applyFilterToIndexValues .repaired [true, false] indices values =
      .error (.oob "len(index_filter) != len(indices) - 1") := by
  refine ⟨?_, ?_, ?_⟩ <;> rfl

/-- NC09b: an index beyond the field reaches the unguarded subscript `next_[i]`; the repaired kernel stops at its guard -/
theorem nc09b_index_out_of_bounds :
    applyIndicesToIndexValues .asFound [0, 7] indices values = .error (.oob "next_[i]") ∧
    applyIndicesToIndexValues .asFound [-5] indices values = .error (.oob "next_[i]") ∧
    applyIndicesToIndexValues .repaired [0, 7] indices values = .error (.oob "index out of bounds for indexed field") := by
  refine ⟨?_, ?_, ?_⟩ <;> rfl

end Exetera.Witness.C09
