import Exetera.Lemmas.MapValidFlat
/-! Helper lemmas for C04, part 4: indexed strings — offsets arithmetic, the value-chunk decomposition, the copy loop.
    Core Lean only. -/
namespace Exetera.MapValid

open Exetera Exetera.Spec

/-! ### offsets of a list of entries -/

/-- total number of bytes -/
def sumLen {β} : List (List β) → Int
  | [] => 0
  | e :: es => e.length + sumLen es

/-- the running end offsets `[base+|e0|, base+|e0|+|e1|, …]` -/
def runSums {β} (base : Int) : List (List β) → List Int
  | [] => []
  | e :: es => (base + e.length) :: runSums (base + e.length) es

theorem offsetsFrom_eq {β} (base : Int) (es : List (List β)) : offsetsFromI base es = base :: runSums base es := by
  induction es generalizing base with
  | nil => rfl
  | cons e es ih => simp only [offsetsFromI, runSums, ih]

theorem sumLen_append {β} (xs ys : List (List β)) : sumLen (xs ++ ys) = sumLen xs + sumLen ys := by
  induction xs with
  | nil => simp [sumLen]
  | cons e es ih => simp only [List.cons_append, sumLen, ih]; omega

theorem runSums_append {β} (base : Int) (xs ys : List (List β)) :
    runSums base (xs ++ ys) = runSums base xs ++ runSums (base + sumLen xs) ys := by
  induction xs generalizing base with
  | nil => simp [runSums, sumLen]
  | cons e es ih =>
    simp only [List.cons_append, runSums, sumLen, ih]
    have : base + ↑e.length + sumLen es = base + (↑e.length + sumLen es) := by omega
    rw [this]

theorem runSums_length {β} (base : Int) (xs : List (List β)) : (runSums base xs).length = xs.length := by
  induction xs generalizing base with
  | nil => rfl
  | cons e es ih => simp [runSums, ih]

theorem sumLen_nonneg {β} (xs : List (List β)) : 0 ≤ sumLen xs := by
  induction xs with
  | nil => simp [sumLen]
  | cons e es ih => simp only [sumLen]; omega

/-- a stretch of empty entries: the offset is repeated -/
theorem runSums_all_nil {β} (base : Int) : ∀ (xs : List (List β)), (∀ x ∈ xs, x = []) →
    runSums base xs = List.replicate xs.length base ∧ sumLen xs = 0 ∧ xs.flatten = [] := by
  intro xs
  induction xs with
  | nil => intro _; simp [runSums, sumLen]
  | cons e es ih =>
    intro h
    have he : e = [] := h e (by simp)
    obtain ⟨h1, h2, h3⟩ := ih (fun x hx => h x (by simp [hx]))
    subst he
    simp [runSums, sumLen, h1, h2, h3, List.replicate_succ]

/-! ### slices -/

theorem slice_slice {α} (xs : List α) (a b c d : Nat) (h : a + d ≤ b) :
    slice (slice xs a b) c d = slice xs (a + c) (a + d) := by
  apply List.ext_getElem?
  intro j
  simp only [slice_getElem?]
  by_cases hj : j < d - c
  · have h1 : c + j < b - a := by omega
    have h2 : j < a + d - (a + c) := by omega
    simp only [hj, h1, h2, if_true]
    congr 1
    omega
  · have h2 : ¬ j < a + d - (a + c) := by omega
    simp [hj, h2]

theorem slice_append_slice {α} (xs : List α) (a b c : Nat) (hab : a ≤ b) (hbc : b ≤ c) :
    slice xs a b ++ slice xs b c = slice xs a c := by
  apply List.ext_getElem?
  intro j
  rw [List.getElem?_append]
  simp only [slice_getElem?, slice_length]
  by_cases hlen : b ≤ xs.length
  · have hm : min (b - a) (xs.length - a) = b - a := by omega
    rw [hm]
    by_cases hj : j < b - a
    · have : j < c - a := by omega
      simp [hj, this]
    · simp only [hj, if_false]
      by_cases hj2 : j - (b - a) < c - b
      · have : j < c - a := by omega
        simp only [hj2, this, if_true]
        congr 1; omega
      · have : ¬ j < c - a := by omega
        simp [hj2, this]
  · -- b beyond the end: both sides stop at the end of xs
    have hm : min (b - a) (xs.length - a) = xs.length - a := by omega
    rw [hm]
    by_cases hj : j < xs.length - a
    · have h1 : j < b - a := by omega
      have h2 : j < c - a := by omega
      simp [hj, h1, h2]
    · simp only [hj, if_false]
      have hnone : xs[a + j]? = none := by simp; omega
      have hnone2 : xs[b + (j - (xs.length - a))]? = none := by simp; omega
      simp [hnone, hnone2]

theorem slice_self {α} (xs : List α) (a : Nat) : slice xs a a = [] := by simp [slice]

theorem slice_succ {α} (xs : List α) (a : Nat) (x : α) (h : xs[a]? = some x) : slice xs a (a + 1) = [x] := by
  apply List.ext_getElem?
  intro j
  simp only [slice_getElem?]
  cases j with
  | zero => simp [h]
  | succ j => simp

theorem pySlice_nonneg {α} (xs : List α) (a b : Int) (ha : 0 ≤ a) (hb : 0 ≤ b) (hbl : b ≤ xs.length) (hab : a ≤ b) :
    pySlice xs a b = slice xs a.toNat b.toNat := by
  simp only [pySlice, normIdx_nonneg _ _ ha, normIdx_nonneg _ _ hb]
  have h1 : min a.toNat xs.length = a.toNat := by omega
  have h2 : min b.toNat xs.length = b.toNat := by omega
  rw [h1, h2]

/-! ### the copy loop -/

theorem readRange_spec {β} (vals : List β) : ∀ (n : Nat) (v : Int), 0 ≤ v → v.toNat + n ≤ vals.length →
    readRange vals v n = .ok (slice vals v.toNat (v.toNat + n)) := by
  intro n
  induction n with
  | zero => intro v _ _; simp [readRange, slice_self]
  | succ n ih =>
    intro v hv hle
    have hlt : v.toNat < vals.length := by omega
    have hg : getI vals v "values[v]" = .ok vals[v.toNat] :=
      getI_nonneg _ _ _ _ hv (List.getElem?_eq_getElem hlt)
    have hrec := ih (v + 1) (by omega) (by omega)
    have h1 : (v + 1).toNat = v.toNat + 1 := by omega
    simp only [readRange, hg, hrec, h1]
    congr 1
    rw [← slice_append_slice vals v.toNat (v.toNat + 1) (v.toNat + (n + 1)) (by omega) (by omega)]
    rw [slice_succ vals v.toNat _ (List.getElem?_eq_getElem hlt)]
    have : v.toNat + 1 + n = v.toNat + (n + 1) := by omega
    rw [this]
    rfl

/-! ### `calculate_chunk_decomposition` -/

theorem Tiles_single {a b : Nat} (h : a < b) : Tiles [(a, b)] a b := by simp [Tiles, h]

/-- the decomposition reads only inside the offsets table, never runs out of recursion depth, and returns a tiling -/
theorem chunkDecompF_spec (indices : List Int) (budget : Int) :
    ∀ (f s e : Nat), e - s + 1 ≤ f → s < e → e < indices.length →
      ∃ subs, chunkDecompF indices budget f s e = .ok subs ∧ Tiles subs s e := by
  intro f
  induction f with
  | zero => intro s e h; omega
  | succ f ih =>
    intro s e hf hse he
    have hge : indices[e]? = some indices[e] := List.getElem?_eq_getElem he
    have hgs : indices[s]? = some indices[s] := List.getElem?_eq_getElem (by omega)
    by_cases hc : indices[e] - indices[s] > budget ∧ e - s > 1
    · obtain ⟨l1, h1, t1⟩ := ih s (s + (e - s) / 2) (by omega) (by omega) (by omega)
      obtain ⟨l2, h2, t2⟩ := ih (s + (e - s) / 2) e (by omega) (by omega) he
      refine ⟨l1 ++ l2, ?_, Tiles.append t1 t2⟩
      simp only [chunkDecompF, hge, hgs, hc, and_self, if_true, h1, h2]
    · refine ⟨[(s, e)], ?_, Tiles_single hse⟩
      simp only [chunkDecompF, hge, hgs, hc, if_false]

theorem chunkDecomp_spec (indices : List Int) (budget : Int) (s e : Nat) (hse : s < e) (he : e < indices.length) :
    ∃ subs, chunkDecomp indices budget s e = .ok subs ∧ Tiles subs s e :=
  chunkDecompF_spec indices budget (e - s + 1) s e (Nat.le_refl _) hse he

/-- reading a tiling by position -/
theorem Tiles.getElem? : ∀ {subs : List (Nat × Nat)} {a c : Nat}, Tiles subs a c →
    ∀ (j : Nat) (x y : Nat), subs[j]? = some (x, y) →
      a ≤ x ∧ x < y ∧ y ≤ c ∧ (y < c → ∃ z, subs[j + 1]? = some (y, z))
  | [], _, _, _, j, x, y, h => by simp at h
  | se :: rest, a, c, ht, j, x, y, h => by
    obtain ⟨h1, h2, h3⟩ := ht
    have hle := Tiles.le h3
    cases j with
    | zero =>
      simp at h
      subst h
      simp only at h1 h2 h3 hle
      refine ⟨by omega, by omega, hle, ?_⟩
      intro hyc
      cases rest with
      | nil => simp [Tiles] at h3; omega
      | cons se2 rest2 =>
        obtain ⟨g1, _, _⟩ := h3
        refine ⟨se2.2, ?_⟩
        simp only [List.getElem?_cons_succ, List.getElem?_cons_zero]
        cases se2; simp_all
    | succ j =>
      simp only [List.getElem?_cons_succ] at h
      obtain ⟨r1, r2, r3, r4⟩ := Tiles.getElem? h3 j x y h
      refine ⟨by omega, r2, r3, ?_⟩
      intro hyc
      obtain ⟨z, hz⟩ := r4 hyc
      exact ⟨z, by simpa using hz⟩

theorem Tiles.head {subs : List (Nat × Nat)} {a c : Nat} (h : Tiles subs a c) (hac : a < c) :
    ∃ y, subs[0]? = some (a, y) := by
  cases subs with
  | nil => simp [Tiles] at h; omega
  | cons se rest =>
    obtain ⟨h1, _, _⟩ := h
    exact ⟨se.2, by cases se; simp_all⟩

/-! ### `ordered_map_valid_indexed_partial` -/

/-- an offsets window is well formed w.r.t. the byte array it indexes -/
structure WinOK {β} (ix : List Int) (values : List β) : Prop where
  mono : ∀ (i j : Nat) (x y : Int), i ≤ j → ix[i]? = some x → ix[j]? = some y → x ≤ y
  nonneg : ∀ (i : Nat) (x : Int), ix[i]? = some x → 0 ≤ x
  le_len : ∀ (i : Nat) (x : Int), ix[i]? = some x → x ≤ values.length

/-- entry `j` of an offsets window -/
def wentry {β} (ix : List Int) (values : List β) (j : Nat) : List β :=
  slice values (ix.getD j 0).toNat (ix.getD (j + 1) 0).toNat

theorem slice_snoc {α} (xs : List α) (a p : Nat) (x : α) (hap : a ≤ p) (h : xs[p]? = some x) :
    slice xs a (p + 1) = slice xs a p ++ [x] := by
  rw [← slice_append_slice xs a p (p + 1) hap (by omega), slice_succ xs p x h]

theorem slice_length_le {α} (xs : List α) (a b : Nat) (hb : b ≤ xs.length) : (slice xs a b).length = b - a := by
  simp only [slice_length]; omega

/-- why a partial call stopped before the end of the sub-chunk -/
def StopReason {β} (map_ : List Int) (ix : List Int) (values : List β) (mv : Int) (b capV : Nat) (inv : Int)
    (r : IP β) : Prop :=
  ∃ k, map_[r.sm]? = some k ∧ k ≠ inv ∧
    ((r.need = true ∧ (b : Int) ≤ k - mv) ∨
     (r.need = false ∧ k - mv < b ∧ (r.rv.length : Int) + (wentry ix values (k - mv).toNat).length > capV))

/-- what a partial call has produced when it has consumed the map positions `[sm, r.sm)` -/
def PartialPost {β} (esL : List (List β)) (sm : Nat) (accum : Int) (capV : Nat) (r : IP β) : Prop :=
  r.ri = runSums accum (slice esL sm r.sm) ∧ r.rv = (slice esL sm r.sm).flatten ∧
  r.accum = accum + sumLen (slice esL sm r.sm) ∧
  -- every entry copied so far fitted into the value buffer
  ∀ x ∈ slice esL sm r.sm, x.length ≤ capV

theorem indexedPartial_spec {β} (map_ : List Int) (sE : Nat) (ix : List Int) (a b : Nat) (values vals : List β)
    (mv : Int) (capI capV : Nat) (inv : Int) (sm : Nat) (accum : Int) (esL : List (List β)) (A B : Int)
    (hix : WinOK ix values) (hab : a < b) (_hb : b < ix.length)
    (hA : ix[a]? = some A) (hB : ix[b]? = some B) (hvals : vals = slice values A.toNat B.toNat)
    (hsE : sE ≤ map_.length) (hesLen : sE ≤ esL.length) (hsm : sm ≤ sE) (hcapI : sE - sm ≤ capI)
    (hwin : ∀ (p : Nat) (k : Int), sm ≤ p → p < sE → map_[p]? = some k → k ≠ inv →
      (a : Int) ≤ k - mv ∧ k - mv + 1 < ix.length)
    (hes : ∀ (p : Nat) (k : Int), sm ≤ p → p < sE → map_[p]? = some k →
      esL[p]? = some (if k = inv then [] else wentry ix values (k - mv).toNat)) :
    ∃ r : IP β, indexedPartial map_ sE ix a b vals mv capI capV inv sm [] [] accum = .ok r ∧
      sm ≤ r.sm ∧ r.sm ≤ sE ∧ PartialPost esL sm accum capV r ∧
      (r.sm < sE → StopReason map_ ix values mv b capV inv r) ∧ (r.sm = sE → r.need = false) := by
  have hgA : getE ix a "indices[i_start]" = .ok A := by simp [getE, hA]
  let par : IPar β := ⟨map_, sE, ix, b, vals, mv, capI, capV, inv, A⟩
  have h := whileE_rule (ipGuard par) (ipBody par)
    (fun t => sm ≤ t.sm ∧ t.sm ≤ sE ∧ PartialPost esL sm accum capV t ∧ (t.brk = false → t.need = false) ∧
      (t.brk = true → t.sm < sE ∧ StopReason map_ ix values mv b capV inv t))
    (fun t => (sE - t.sm) + (if t.brk then 0 else 1))
    (by
      intro t ⟨h1, h2, ⟨hri, hrv, hacc, hfit⟩, hnb, _⟩ hg
      simp only [ipGuard, Bool.and_eq_true, decide_eq_true_eq, Bool.not_eq_true'] at hg
      obtain ⟨hlt, hbrk⟩ := hg
      have hlt : t.sm < sE := hlt
      have hneed : t.need = false := hnb hbrk
      have hpm : t.sm < map_.length := by omega
      have hgm : map_[t.sm]? = some map_[t.sm] := List.getElem?_eq_getElem hpm
      have hesp := hes t.sm map_[t.sm] h1 hlt hgm
      have hrilen : t.ri.length < capI := by
        rw [hri, runSums_length, slice_length_le _ _ _ (by omega)]; omega
      by_cases hk : map_[t.sm] = inv
      · -- marker: the current offset is repeated
        have hesp' : esL[t.sm]? = some [] := by simpa [hk] using hesp
        have hsl := slice_snoc esL sm t.sm [] h1 hesp'
        refine ⟨{ t with sm := t.sm + 1, ri := t.ri ++ [t.accum] }, ?_, ⟨by simp only []; omega, by simp only []; omega, ?_, ?_, ?_⟩, ?_⟩
        · simp only [ipBody, par, hgm, hk, beq_self_eq_true, if_true, hrilen]
        · refine ⟨?_, ?_, ?_, ?_⟩
          · simp only [hsl, runSums_append, hri, runSums, hacc]; simp
          · simp only [hsl, List.flatten_append, hrv]; simp
          · simp only [hsl, sumLen_append, hacc, sumLen]; simp
          · intro x hx
            simp only [hsl, List.mem_append, List.mem_singleton] at hx
            rcases hx with hx | hx
            · exact hfit x hx
            · subst hx; simp
        · intro _; exact hneed
        · intro hb'; simp only [hbrk] at hb'; exact absurd hb' (by simp)
        · simp only [hbrk]; simp; omega
      · have hkb : (map_[t.sm] == inv) = false := by simpa using hk
        obtain ⟨hai, hiN⟩ := hwin t.sm map_[t.sm] h1 hlt hgm hk
        have hesp' : esL[t.sm]? = some (wentry ix values (map_[t.sm] - mv).toNat) := by simpa [hk] using hesp
        by_cases hib : (map_[t.sm] - mv) ≥ (b : Int)
        · -- the entry lies beyond the current value sub-chunk
          refine ⟨{ t with need := true, brk := true }, ?_, ⟨h1, h2, ⟨hri, hrv, hacc, hfit⟩, ?_, ?_⟩, ?_⟩
          · simp only [ipBody, par, hgm, hkb, hib, if_true]; simp
          · intro hb'; simp at hb'
          · intro _; exact ⟨hlt, map_[t.sm], hgm, hk, Or.inl ⟨rfl, hib⟩⟩
          · simp only [hbrk]; simp
        · have hi0 : 0 ≤ map_[t.sm] - mv := by omega
          generalize hidef : map_[t.sm] - mv = i at hai hiN hib hi0 hesp'
          have hin : i.toNat < ix.length := by omega
          have hin1 : i.toNat + 1 < ix.length := by omega
          have hgX : ix[i.toNat]? = some ix[i.toNat] := List.getElem?_eq_getElem hin
          have hgY : ix[i.toNat + 1]? = some ix[i.toNat + 1] := List.getElem?_eq_getElem hin1
          generalize hX : ix[i.toNat] = X at hgX
          generalize hY : ix[i.toNat + 1] = Y at hgY
          have hgetX : getI ix i "indices[i]" = .ok X := getI_nonneg _ _ _ _ hi0 hgX
          have hgetY : getI ix (i + 1) "indices[i+1]" = .ok Y := by
            apply getI_nonneg _ _ _ _ (by omega)
            have : (i + 1).toNat = i.toNat + 1 := by omega
            rw [this]; exact hgY
          have hAX : A ≤ X := hix.mono a i.toNat A X (by omega) hA hgX
          have hXY : X ≤ Y := hix.mono i.toNat (i.toNat + 1) X Y (by omega) hgX hgY
          have hYB : Y ≤ B := hix.mono (i.toNat + 1) b Y B (by omega) hgY hB
          have hA0 : 0 ≤ A := hix.nonneg a A hA
          have hBl : B ≤ values.length := hix.le_len b B hB
          have hwe : wentry ix values i.toNat = slice values X.toNat Y.toNat := by
            simp only [wentry, List.getD_eq_getElem?_getD, hgX, hgY, Option.getD_some]
          have hwl : ((wentry ix values i.toNat).length : Int) = Y - X := by
            rw [hwe, slice_length_le _ _ _ (by omega)]; omega
          by_cases hfull : (t.rv.length : Int) + (Y - A) - (X - A) > (capV : Int)
          · -- the value buffer cannot take the entry
            refine ⟨{ t with brk := true }, ?_, ⟨h1, h2, ⟨hri, hrv, hacc, hfit⟩, ?_, ?_⟩, ?_⟩
            · simp only [ipBody, par, hgm, hkb, hidef, hib, if_false, hgetX, hgetY, hfull, if_true]; simp
            · intro hb'; simp at hb'
            · intro _
              refine ⟨hlt, map_[t.sm], hgm, hk, Or.inr ⟨hneed, by omega, ?_⟩⟩
              show (t.rv.length : Int) + ((wentry ix values (map_[t.sm] - mv).toNat).length : Int) > (capV : Int)
              rw [hidef, hwl]; omega
            · simp only [hbrk]; simp
          · -- the entry is copied
            have hvl : vals.length = B.toNat - A.toNat := by
              rw [hvals, slice_length_le _ _ _ (by omega)]
            have hread := readRange_spec vals ((Y - A) - (X - A)).toNat (X - A) (by omega) (by omega)
            have hbytes : slice vals (X - A).toNat ((X - A).toNat + ((Y - A) - (X - A)).toNat)
                = wentry ix values i.toNat := by
              rw [hwe, hvals, slice_slice _ _ _ _ _ (by omega)]
              congr 1 <;> omega
            rw [hbytes] at hread
            have hsl := slice_snoc esL sm t.sm _ h1 hesp'
            refine ⟨{ t with sm := t.sm + 1, ri := t.ri ++ [t.accum + ((Y - A) - (X - A))],
                             rv := t.rv ++ wentry ix values i.toNat, accum := t.accum + ((Y - A) - (X - A)) },
              ?_, ⟨by simp only []; omega, by simp only []; omega, ?_, ?_, ?_⟩, ?_⟩
            · simp only [ipBody, par, hgm, hkb, hidef, hib, if_false, hgetX, hgetY, hfull, hread, hrilen, if_true,
                Bool.false_eq_true]
            · refine ⟨?_, ?_, ?_, ?_⟩
              · simp only [hsl, runSums_append, hri, runSums, hacc, hwl]
                congr 2; omega
              · simp only [hsl, List.flatten_append, hrv]; simp
              · simp only [hsl, sumLen_append, hacc, sumLen, hwl]; omega
              · intro x hx
                simp only [hsl, List.mem_append, List.mem_singleton] at hx
                rcases hx with hx | hx
                · exact hfit x hx
                · subst hx; omega
            · intro _; exact hneed
            · intro hb'; simp only [hbrk] at hb'; exact absurd hb' (by simp)
            · simp only [hbrk]; simp; omega)
    (sE - sm + 1) ⟨sm, [], [], accum, false, false⟩
    ⟨Nat.le_refl _, hsm, ⟨by simp [slice_self, runSums], by simp [slice_self], by simp [slice_self, sumLen],
      by simp [slice_self]⟩,
      fun _ => rfl, fun h => by simp at h⟩
    (by simp)
  obtain ⟨r, hrun, ⟨h1, h2, hpost, hnb, hb'⟩, hg⟩ := h
  refine ⟨r, ?_, h1, h2, hpost, ?_, ?_⟩
  · simp only [indexedPartial, hgA]; exact hrun
  · intro hlt
    simp only [ipGuard, par, Bool.and_eq_false_iff, decide_eq_false_iff_not, Bool.not_eq_false'] at hg
    rcases hg with hg | hg
    · exact absurd hlt hg
    · exact (hb' hg).2
  · intro heq
    cases hbk : r.brk with
    | false => exact hnb hbk
    | true => have := (hb' hbk).1; omega

end Exetera.MapValid
