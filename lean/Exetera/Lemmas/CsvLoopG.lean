import Exetera.Lemmas.CsvStepThm
/-! `read_file_using_fast_csv_reader` over any number of windows and any number of buffer regrowths (C05). -/
namespace Exetera.Csv
open Exetera Spec

/-- upper bound on the number of regrowths: doublings of the index buffer until it holds more rows than the file has records,
    plus, per column, doublings of its value budget until it exceeds the bytes of the column -/
def regrowthBound (rows : List (List Cell)) (ncols : Nat) (offs : List Nat) (maxrow : Nat) : Nat :=
  need maxrow rows.length + sumTo (fun c => need (offAt offs (c + 1) - offAt offs c) (colBytes rows c)) ncols

theorem mu_eq (rows : List (List Cell)) (ncols : Nat) (offs : List Nat) (q maxrow : Nat) :
    mu rows ncols offs q maxrow = (rows.length + 1 - q) + regrowthBound rows ncols offs maxrow := by
  unfold mu regrowthBound; omega

/-- a position at or behind the end of the file is the end of the last line -/
theorem all_consumed {file : Bytes} {crs ncols : Nat} {im : List Nat} {hrow : List Cell} {rows : List (List Cell)}
    (st : SettingR file crs ncols im hrow rows) (hfile : file ≠ []) {e : Nat} (he : e ≤ rows.length + 1)
    (hge : ¬ bnd hrow rows e < file.length) : e = rows.length + 1 := by
  rcases Nat.lt_or_ge e (rows.length + 1) with hlt | hge'
  · exfalso
    have hallne := lines_ne st.nc st.hdr.1 st.tab
    have h1 := bnd_strict st.nc st.hdr.1 st.tab (show e < e + 1 by omega) (by omega)
    have h2 := bnd_le_total hrow rows (e + 1)
    have hfpos : 0 < file.length := List.length_pos_iff.mpr hfile
    rcases st.isFile with h | ⟨h, hn⟩
    · rw [h] at hge; omega
    · have hlen : file.length + 1 = (render (hrow :: rows)).length := by rw [← h]; simp
      have hbe : bnd hrow rows e = file.length := by omega
      have hT : render (hrow :: rows) = render ((hrow :: rows).take e) ++ render ((hrow :: rows).drop e) := by
        rw [← render_append', List.take_append_drop]
      have hfile' : file = render ((hrow :: rows).take e) := by
        have h3 : (file ++ [NL]).take file.length = file := by simp
        rw [h, hT, ← hbe] at h3
        unfold bnd at h3
        rw [List.take_left] at h3
        rw [h3]
      have he0 : e ≠ 0 := by
        intro h0
        rw [h0] at hbe
        rw [bnd_zero] at hbe
        omega
      have hne : (hrow :: rows).take e ≠ [] := by
        intro hnil
        have := congrArg List.length hnil
        simp at this
        omega
      have := render_getLast ((hrow :: rows).take e) hne (fun r hr => hallne r (List.mem_of_mem_take hr))
      rw [← hfile'] at this
      exact hn this
  · omega

theorem loop_g {file : Bytes} {crs ncols : Nat} {im : List Nat} {hrow : List Cell} {rows : List (List Cell)}
    (st : SettingR file crs ncols im hrow rows) (hfile : file ≠ []) {F : Nat → List Bytes → Imp} {good : Nat → Bytes → Prop}
    (hhom : ImpHom ncols F good) (hgood : ∀ c ∈ im, ∀ cell ∈ column (values rows) c, good c cell) :
    ∀ (n : Nat) (s : DS) (q e maxrow : Nat),
      DI F file (crs * Gen.Csv.CHUNK_ROW_FACTOR * ncols) ncols im hrow rows s q e maxrow →
      mu rows ncols s.offs q maxrow ≤ n →
      ∀ fuel, n + 1 ≤ fuel →
        ∃ s', whileE (dguard file) (driverStep file (crs * Gen.Csv.CHUNK_ROW_FACTOR * ncols) ncols im) fuel s = .ok s' ∧
          s'.rows = (rows.length : Int) ∧ s'.imps = im.map (fun c => F c (column (values rows) c)) := by
  intro n
  induction n with
  | zero =>
    intro s q e maxrow hinv hmu fuel hfuel
    by_cases hlt : bnd hrow rows q < file.length
    · obtain ⟨s', q', e', maxrow', _, _, hdec⟩ := driver_step_g st hhom hgood hinv hlt
      omega
    · have hfresh : e = q := by
        rcases hinv.win with ⟨_, _, h⟩ | ⟨_, _, _, _, h⟩
        · exact h
        · exact absurd h hlt
      have hall := all_consumed st hfile hinv.el (by rw [hfresh]; exact hlt)
      have hci : ¬ s.ci < file.length := by rw [hinv.ci]; exact hlt
      refine ⟨s, ?_, ?_, ?_⟩
      · cases fuel <;> simp [whileE, dguard, hci]
      · rw [hinv.rows_, hall]; simp
      · rw [hinv.imps, hall]
        apply List.map_congr_left
        intro c _
        simp [doneCols]
  | succ n ih =>
    intro s q e maxrow hinv hmu fuel hfuel
    obtain ⟨f, rfl⟩ : ∃ f, fuel = f + 1 := ⟨fuel - 1, by omega⟩
    by_cases hlt : bnd hrow rows q < file.length
    · have hg : dguard file s = true := by simp [dguard, hinv.ci, hlt, hinv.stop]
      obtain ⟨s', q', e', maxrow', hstep, hinv', hdec⟩ := driver_step_g st hhom hgood hinv hlt
      obtain ⟨s'', hloop, hr, hi⟩ := ih s' q' e' maxrow' hinv' (by omega) f (by omega)
      refine ⟨s'', ?_, hr, hi⟩
      simp only [whileE, hg, if_true, hstep]
      exact hloop
    · have hfresh : e = q := by
        rcases hinv.win with ⟨_, _, h⟩ | ⟨_, _, _, _, h⟩
        · exact h
        · exact absurd h hlt
      have hall := all_consumed st hfile hinv.el (by rw [hfresh]; exact hlt)
      have hci : ¬ s.ci < file.length := by rw [hinv.ci]; exact hlt
      refine ⟨s, ?_, ?_, ?_⟩
      · simp [whileE, dguard, hci]
      · rw [hinv.rows_, hall]; simp
      · rw [hinv.imps, hall]
        apply List.map_congr_left
        intro c _
        simp [doneCols]

/-- **the driver with regrowth, for any importers**: `F` is a family of append homomorphisms (`ImpHom`: the indexed string
    importer, or any schema-typed importer of C06) and every cell of every imported column is acceptable to its importer.
    For every `chunk_row_size` of the supported regime and every starting budgets ≥ 1, whatever number of times the index
    buffer and the value buffers have to be enlarged, importer `c` ends in the state `F c (whole column c)`: what one
    `import_part` call on the whole column would leave. At most `records + 2 + regrowthBound` kernel calls. -/
theorem readFile_hom {file : Bytes} {crs ncols : Nat} {offs im : List Nat} {hrow : List Cell} {rows : List (List Cell)}
    (st : SettingR file crs ncols im hrow rows) (hfile : file ≠ []) {F : Nat → List Bytes → Imp} {good : Nat → Bytes → Prop}
    (hhom : ImpHom ncols F good) (hgood : ∀ c ∈ im, ∀ cell ∈ column (values rows) c, good c cell)
    (hlen : offs.length = ncols + 1) (h0 : offAt offs 0 = 0) (hbud : ∀ c, c < ncols → offAt offs c < offAt offs (c + 1))
    (fuel : Nat) (hfuel : rows.length + 2 + regrowthBound rows ncols offs (crs * Gen.Csv.CHUNK_ROW_FACTOR) ≤ fuel) :
    ∃ calls, readFile file crs ncols offs im (im.map (fun c => F c [])) fuel =
      .ok ⟨rows.length, im.map (fun c => F c (column (values rows) c)), calls⟩ := by
  have hsh := shape_zeros (maxrow := crs * Gen.Csv.CHUNK_ROW_FACTOR) hlen h0 (fun c hc => Nat.le_of_lt (hbud c hc))
  have hinv0 : DI F file (crs * Gen.Csv.CHUNK_ROW_FACTOR * ncols) ncols im hrow rows
      ({ ci := 0, hasHeader := true, rows := 0, inds := zeros2 ncols (crs * Gen.Csv.CHUNK_ROW_FACTOR + 1), vals := List.replicate (offs.getLastD 0) 0, offs := offs, indsFull := false, valsFull := false, content := [], start := 0, imps := im.map (fun c => F c []), calls := [], stop := false } : DS)
      0 0 (crs * Gen.Csv.CHUNK_ROW_FACTOR) := {
    qe := Nat.le_refl _
    el := Nat.zero_le _
    ci := rfl
    hh := rfl
    rows_ := rfl
    stop := rfl
    bud := hbud
    maxpos := Nat.mul_pos st.crsPos (by decide)
    shape := hsh
    zero := fun c hc => zeros_first c hc
    imps := by
      apply List.map_congr_left
      intro c _
      simp [doneCols, values, column]
    win := Or.inl ⟨rfl, rfl, rfl⟩
    inwin := Nat.le_add_right _ _ }
  obtain ⟨s', hloop, hr, hi⟩ :=
    loop_g st hfile hhom hgood (rows.length + 1 + regrowthBound rows ncols offs (crs * Gen.Csv.CHUNK_ROW_FACTOR)) _ 0 0
      (crs * Gen.Csv.CHUNK_ROW_FACTOR) hinv0 (by rw [mu_eq]; exact Nat.le_refl _) fuel (by omega)
  refine ⟨s'.calls, ?_⟩
  unfold readFile
  dsimp only
  rw [hloop]
  simp only [hr, hi]

/-- **the driver with regrowth**: for every `chunk_row_size` of the supported regime and every starting budgets ≥ 1, whatever
    number of times the index buffer and the value buffers have to be enlarged, the destination fields are exactly the
    file's columns. The number of kernel calls is at most `records + 2 + regrowthBound`. -/
theorem readFile_regrowth {file : Bytes} {crs ncols : Nat} {offs im : List Nat} {hrow : List Cell} {rows : List (List Cell)}
    (st : SettingR file crs ncols im hrow rows) (hfile : file ≠ [])
    (hlen : offs.length = ncols + 1) (h0 : offAt offs 0 = 0) (hbud : ∀ c, c < ncols → offAt offs c < offAt offs (c + 1))
    (fuel : Nat) (hfuel : rows.length + 2 + regrowthBound rows ncols offs (crs * Gen.Csv.CHUNK_ROW_FACTOR) ≤ fuel) :
    ∃ calls, readFile file crs ncols offs im (im.map (fun _ => ({ kind := .indexed } : Imp))) fuel =
      .ok ⟨rows.length, im.map (fun c => fieldOf (column (values rows) c)), calls⟩ :=
  readFile_hom st hfile (impHom_indexed ncols) (fun _ _ _ _ => trivial) hlen h0 hbud fuel hfuel

end Exetera.Csv
