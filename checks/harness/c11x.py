"""C11 (extra base) — cases that only make sense as a TWO-MODE differential: inputs on which numba and the interpreted
fallback can legitimately be suspected to differ and which the Int-valued Lean models cannot carry: float columns with
NaN / ±inf / -0.0, every integer dtype at its bounds, narrow index and filter dtypes at their largest value, unsigned
arithmetic, empty and single-row columns. There is no Lean model for these cases (`to_model` sends a no-op, `compare`
accepts it); the verdict is the direct comparison of the two execution modes' results by checks/run.py
(`MODE_DIFF_IS_VIOLATION` of c11): values (floats by `repr`, so NaN, -0.0 and inf are told apart), dtypes, lengths and error
kinds. Used only as an entry of c11.BASES."""
import os

PROPERTY = "C11"
LEVEL = "other"
INT_DTYPES = ["int8", "int16", "int32", "int64", "uint8", "uint16", "uint32", "uint64"]
FLOAT_DTYPES = ["float32", "float64"]
SPECIAL = ["nan", "inf", "-inf", "-0.0", "0.0"]
SRC_FNS = ["first", "last", "min", "max"]
IDX_FNS = ["index_of_min", "index_of_max"]
STRS = ["", "a", "ab", "b", "é", "zz", "a b", "日本", "x" * 9]


# ------------------------------------------------------------------------------------------------------------------
# generators
# ------------------------------------------------------------------------------------------------------------------
def bounds(dt):
    bits = int(dt.lstrip("uint"))
    return (0, 2 ** bits - 1) if dt.startswith("u") else (-2 ** (bits - 1), 2 ** (bits - 1) - 1)


def rand_spans(rng, n):
    cuts = sorted(rng.sample(range(1, n), rng.randrange(0, min(n - 1, 6) + 1))) if n > 1 else []
    return [0] + cuts + [n]


def float_col(rng, n, p_special=0.3):
    out = []
    for _ in range(n):
        if rng.random() < p_special:
            out.append(rng.choice(SPECIAL))
        else:
            out.append(repr(float(rng.choice([-3, -1, 0, 1, 2, 5, 7])) + rng.choice([0.0, 0.5, 0.25])))
    return out


def int_col(rng, n, dt):
    lo, hi = bounds(dt)
    return [rng.choice([lo, hi, lo + 1, hi - 1, 0, 1, rng.randrange(max(lo, -50), min(hi, 50) + 1)]) for _ in range(n)]


def gen_cases(tier, rng):
    nrand = {"quick": 60, "thorough": 1500, "search": 800}.get(tier, 60)
    cases = []
    # ---- span reductions over float columns with specials, and over every integer dtype at its bounds --------------------
    hand = [(["1.0", "nan", "3.0"], [0, 3]), (["nan", "1.0", "3.0"], [0, 3]), (["3.0", "nan", "5.0", "2.0", "nan"], [0, 2, 5]),
            (["-0.0", "0.0"], [0, 2]), (["0.0", "-0.0"], [0, 2]), (["inf", "nan", "-inf"], [0, 1, 3]), (["nan", "nan"], [0, 2])]
    for data, sp in hand:
        for fn in SRC_FNS + IDX_FNS:
            for dt in FLOAT_DTYPES:
                for level in ("ops", "session", "field"):
                    cases.append({"op": "x_apply", "fn": fn, "level": level, "dtype": dt, "data": data, "spans": sp})
    for t in range(nrand):
        n = rng.choice([1, 2, 3, rng.randrange(4, 12), rng.randrange(12, 40)])
        fl = rng.random() < 0.6
        dt = rng.choice(FLOAT_DTYPES if fl else INT_DTYPES)
        data = float_col(rng, n) if fl else int_col(rng, n, dt)
        cases.append({"op": "x_apply", "fn": rng.choice(SRC_FNS + IDX_FNS), "level": rng.choice(["ops", "session", "field"]),
                      "dtype": dt, "data": data, "spans": rand_spans(rng, n), "sdtype": rng.choice(["int32", "int64"])})
    # ---- groupby min/max/first/last over float targets with NaN ------------------------------------------------------------
    for t in range(max(nrand // 4, 8)):
        n = rng.randrange(1, 14)
        keys = sorted(rng.randrange(0, 4) for _ in range(n))
        if rng.random() < 0.4:
            rng.shuffle(keys)
        cases.append({"op": "x_groupby", "agg": rng.choice(["min", "max", "first", "last"]), "keys": keys,
                      "dtype": rng.choice(FLOAT_DTYPES), "data": float_col(rng, n, 0.4)})
    # ---- apply_index / apply_filter with narrow index / filter dtypes at their largest value ------------------------------
    for idt, top in (("int8", 127), ("uint8", 255), ("int16", 300), ("int32", 300), ("uint16", 300), ("int64", 300)):
        for kind in ("indexed", "numeric", "fixed"):
            for n in (top + 1, top + 45) if top < 300 else (40,):
                hi = min(top, n - 1)
                idx = [hi, 0, hi - 1, 1, hi] + [rng.randrange(0, hi + 1) for _ in range(6)]
                cases.append({"op": "x_apply_index", "kind": kind, "n": n, "idtype": idt, "index": idx,
                              "entry": rng.choice(["field", "session", "frame"])})
    for t in range(max(nrand // 3, 10)):
        idt = rng.choice(["int8", "uint8", "int16", "uint16", "int32", "uint32", "int64", "uint64"])
        lo, hi = bounds(idt)
        n = rng.choice([1, 5, 130, 260])
        top = min(hi, n - 1)
        idx = [rng.choice([top, 0, top // 2, rng.randrange(0, top + 1)]) for _ in range(rng.randrange(0, 9))]
        cases.append({"op": "x_apply_index", "kind": rng.choice(["indexed", "numeric", "fixed"]), "n": n, "idtype": idt, "index": idx,
                      "entry": rng.choice(["field", "session", "frame"])})
        fdt = rng.choice(["bool", "int8", "uint8", "int32", "int64", "float64"])
        m = rng.choice([1, 4, 9, 130])
        flt = [rng.choice([0, 1, 1, 2 if fdt != "bool" else 1]) for _ in range(m)]
        cases.append({"op": "x_apply_filter", "kind": rng.choice(["indexed", "numeric", "fixed"]), "n": m, "fdtype": fdt, "filter": flt,
                      "entry": rng.choice(["field", "session", "frame"])})
    # ---- spans of float columns (NaN != NaN) and of every integer dtype ------------------------------------------------------
    for t in range(max(nrand // 3, 10)):
        n = rng.randrange(0, 12)
        fl = rng.random() < 0.6
        dt = rng.choice(FLOAT_DTYPES if fl else INT_DTYPES)
        a = float_col(rng, n, 0.5) if fl else int_col(rng, n, dt)
        b = [rng.randrange(0, 2) for _ in range(n)]
        cases.append({"op": "x_spans", "dtype": dt, "a": a, "b": b, "entry": rng.choice(["field", "array", "two", "multi"])})
    # ---- non-streaming and streaming maps of float / unsigned columns ----------------------------------------------------------
    for t in range(max(nrand // 3, 10)):
        n = rng.randrange(1, 10)
        fl = rng.random() < 0.5
        dt = rng.choice(FLOAT_DTYPES if fl else ["uint8", "uint64", "int8", "bool"])
        src = float_col(rng, n, 0.4) if fl else ([rng.randrange(0, 2) for _ in range(n)] if dt == "bool" else int_col(rng, n, dt))
        inv = rng.choice([-1, 2 ** 31 - 1, 2 ** 62])
        valid = sorted(rng.randrange(0, n) for _ in range(rng.randrange(0, 9)))
        m = []
        for v in valid:
            if rng.random() < 0.3:
                m.append(inv)
            m.append(v)
        if rng.random() < 0.5:
            m.append(inv)
        cases.append({"op": "x_map", "dtype": dt, "src": src, "map": m, "inv": inv, "cs": rng.choice([1, 2, 3, 1 << 20]),
                      "mdtype": "int64" if inv > 2 ** 31 else rng.choice(["int32", "int64"]),
                      "entry": rng.choice(["safe", "map_valid", "stream"])})
    return cases


# ------------------------------------------------------------------------------------------------------------------
# implementation (worker process; mode set by the environment)
# ------------------------------------------------------------------------------------------------------------------
_S = {}


def _env():
    if not _S:
        import io
        import numpy as np
        from exetera.core import operations as ops, fields
        from exetera.core.session import Session
        _S.update(np=np, io=io, ops=ops, fields=fields, Session=Session, s=Session())
    return _S


def arr(e, data, dt):
    np = e["np"]
    if dt in FLOAT_DTYPES:
        return np.array([float(x) for x in data], dtype=dt)
    if dt == "bool":
        return np.array(data, dtype=bool)
    return np.array(data, dtype=dt)


def out_vals(e, r):
    np = e["np"]
    r = np.asarray(r)
    if r.dtype.kind == "f":
        vals = [repr(float(x)) for x in r.tolist()]
    elif r.dtype.kind == "S":
        vals = [x.decode("latin-1") for x in r.tolist()]
    elif r.dtype.kind in "OU":
        vals = [str(x) for x in r.tolist()]
    elif r.dtype.kind == "b":
        vals = [bool(x) for x in r.tolist()]
    else:
        vals = [int(x) for x in r.tolist()]
    return {"vals": vals, "dtype": str(r.dtype)}


def any_out(e, r):
    if isinstance(r, tuple):
        return {"parts": [any_out(e, x) for x in r]}
    if hasattr(r, "data") and hasattr(r, "valid"):
        return read(e, r)
    if isinstance(r, list):
        return {"vals": [str(x) for x in r], "dtype": "list"}
    return out_vals(e, r)


def column(e, kind, n):
    np, fields, s = e["np"], e["fields"], e["s"]
    if kind == "indexed":
        f = fields.IndexedStringMemField(s)
        data = [STRS[i % len(STRS)] + str(i) for i in range(n)]
        f.data.write(data)
    elif kind == "fixed":
        f = fields.FixedStringMemField(s, 4)
        data = [("%04d" % i).encode() for i in range(n)]
        f.data.write(np.array(data, dtype="S4"))
        data = [x.decode() for x in data]
    else:
        f = fields.NumericMemField(s, "int32")
        data = list(range(1000, 1000 + n))
        f.data.write(np.array(data, dtype="int32"))
    return f, data


def read(e, f):
    d = f.data[:]
    if isinstance(d, list):
        return {"vals": [str(x) for x in d], "dtype": "list"}
    return out_vals(e, d)


def frame_with(e, fs):
    """a dataframe (in-memory HDF5) holding copies of the given memory fields under the names c0, c1, …"""
    s = e["Session"]()
    ds = s.open_dataset(e["io"].BytesIO(), "w", "ds")
    df = ds.create_dataframe("df")
    for k, f in enumerate(fs):
        df["c%d" % k] = f
    return s, ds, df


def impl(case):
    e = _env()
    np, ops, fields, s = e["np"], e["ops"], e["fields"], e["s"]
    op = case["op"]
    if op == "x_apply":
        data = arr(e, case["data"], case["dtype"])
        sp = np.array(case["spans"], dtype=case.get("sdtype", "int32"))
        fn, level = case["fn"], case["level"]
        if fn in IDX_FNS:
            if level == "ops":
                dest = np.zeros(len(sp) - 1, dtype=sp.dtype)     # the kernel's own default; another dtype does not unify under numba
                r = getattr(ops, "apply_spans_" + fn)(sp, data, dest)
                return out_vals(e, dest if r is None else r)
            return out_vals(e, getattr(s, "apply_spans_" + fn)(sp, data))
        if level == "ops":
            dest = np.zeros(len(sp) - 1, dtype=data.dtype)
            getattr(ops, "apply_spans_" + fn)(sp, data, dest)
            return out_vals(e, dest)
        if level == "session":
            return out_vals(e, getattr(s, "apply_spans_" + fn)(sp, data))
        f = fields.NumericMemField(s, case["dtype"])
        f.data.write(data)
        return read(e, getattr(f, "apply_spans_" + fn)(sp))
    if op == "x_groupby":
        k = fields.NumericMemField(s, "int32")
        k.data.write(np.array(case["keys"], dtype="int32"))
        t = fields.NumericMemField(s, case["dtype"])
        t.data.write(arr(e, case["data"], case["dtype"]))
        s2, ds, df = frame_with(e, [k, t])
        try:
            ddf = ds.create_dataframe("out")
            getattr(df.groupby(by="c0"), case["agg"])(target="c1", ddf=ddf)
            return {"keys": read(e, ddf["c0"]), "agg": read(e, ddf["c1_" + case["agg"]])}
        finally:
            s2.close()
    if op == "x_apply_index":
        f, data = column(e, case["kind"], case["n"])
        idx = np.array(case["index"], dtype=case["idtype"])
        if case["entry"] == "field":
            return read(e, f.apply_index(idx))
        if case["entry"] == "session":
            return any_out(e, s.apply_index(idx, f))
        s2, ds, df = frame_with(e, [f])
        try:
            ddf = ds.create_dataframe("out")
            df.apply_index(idx, ddf)
            return read(e, ddf["c0"])
        finally:
            s2.close()
    if op == "x_apply_filter":
        f, data = column(e, case["kind"], case["n"])
        flt = arr(e, case["filter"], case["fdtype"])
        if case["entry"] == "field":
            return read(e, f.apply_filter(flt))
        if case["entry"] == "session":
            return any_out(e, s.apply_filter(flt, f))
        s2, ds, df = frame_with(e, [f])
        try:
            ddf = ds.create_dataframe("out")
            df.apply_filter(flt, ddf)
            return read(e, ddf["c0"])
        finally:
            s2.close()
    if op == "x_spans":
        a = arr(e, case["a"], case["dtype"])
        b = np.array(case["b"], dtype="int64")
        ent = case["entry"]
        if ent == "field":
            f = fields.NumericMemField(s, case["dtype"])
            f.data.write(a)
            return out_vals(e, f.get_spans())
        if ent == "array":
            return out_vals(e, s.get_spans(a))
        if ent == "two":
            return out_vals(e, s.get_spans(fields=(a, b)))
        return out_vals(e, ops._get_spans_for_multi_fields(np.array([a.astype("float64"), b.astype("float64")])))
    if op == "x_map":
        src = arr(e, case["src"], case["dtype"])
        m = np.array(case["map"], dtype=case["mdtype"])
        inv = case["inv"]
        ent = case["entry"]
        if ent == "safe":
            return out_vals(e, ops.safe_map_values(src, m, m != inv))
        if ent == "map_valid":
            return out_vals(e, ops.map_valid(src, m, invalid=inv))
        sf = fields.NumericMemField(s, case["dtype"])
        sf.data.write(src)
        mf = fields.NumericMemField(s, case["mdtype"])
        mf.data.write(m)
        df_ = fields.NumericMemField(s, case["dtype"])
        ops.ordered_map_valid_stream(sf, mf, df_, invalid=inv, chunksize=case["cs"])
        return read(e, df_)
    raise ValueError(op)


def to_model(case):
    return {"op": "int64_index_length"}        # a constant-time driver op; its answer is ignored (no model for these cases)


def compare(case, io, mo, mode):
    return None


def check_spec(case, io, mode):
    return None


def nontrivial(case, mo):
    return any(x in SPECIAL for x in case.get("data", []) + case.get("a", []) + case.get("src", [])) or \
        case["op"] in ("x_apply_index", "x_apply_filter") or case.get("dtype") in INT_DTYPES


def classify(case, mo):
    return [case["op"] + ":" + str(case.get("dtype") or case.get("idtype") or case.get("fdtype"))]


def select_for_mode(case, mode, tier):
    return True
