import Exetera.Model.PyRt
/-!
  Proof toolkit for the TRANSLATED kernels, part 2: a translated `while` loop whose condition subscripts (`whileG`, run on the
  kernel's global fuel) follows every successful run of a hand model's `whileE` loop (run on the model's own, per-loop fuel),
  provided the global fuel covers a variant `μ` of the model's loop.
-/
namespace Exetera.GenK

open Exetera Exetera.PyRt

theorem whileG_of_whileE {σ τ} (R : σ → τ → Prop) (gG : σ → Except Err Bool) (bG : σ → Except Err σ)
    (g2 : τ → Bool) (b2 : τ → Except Err τ) (μ : τ → Nat)
    (hg : ∀ s t, R s t → gG s = .ok (g2 t))
    (hb : ∀ s t t', R s t → g2 t = true → b2 t = .ok t' → ∃ s', bG s = .ok s' ∧ R s' t' ∧ μ t' < μ t) :
    ∀ (n : Nat) (s : σ) (t t' : τ), R s t → whileE g2 b2 n t = .ok t' → ∀ F, μ t ≤ F →
      ∃ s', whileG gG bG F s = .ok s' ∧ R s' t' := by
  intro n
  induction n with
  | zero =>
    intro s t t' hR h F _
    cases hgt : g2 t with
    | true => simp [whileE, hgt] at h
    | false =>
      simp only [whileE, hgt, Bool.false_eq_true, if_false, Except.ok.injEq] at h
      subst h
      exact ⟨s, by cases F <;> simp [whileG, hg s t hR, hgt], hR⟩
  | succ n ih =>
    intro s t t' hR h F hF
    cases hgt : g2 t with
    | false =>
      simp only [whileE, hgt, Bool.false_eq_true, if_false, Except.ok.injEq] at h
      subst h
      exact ⟨s, by cases F <;> simp [whileG, hg s t hR, hgt], hR⟩
    | true =>
      simp only [whileE, hgt, if_true] at h
      cases hbt : b2 t with
      | error e => simp [hbt] at h
      | ok t1 =>
        simp only [hbt] at h
        obtain ⟨s1, hb1, hR1, hμ⟩ := hb s t t1 hR hgt hbt
        cases F with
        | zero => omega
        | succ F =>
          obtain ⟨s', hw, hR'⟩ := ih s1 t1 t' hR1 h F (by omega)
          exact ⟨s', by simp [whileG, hg s t hR, hgt, hb1, hw], hR'⟩

end Exetera.GenK
