import Exetera.Lemmas.FilterIndexOffsets
/-! The two passes of `apply_filter_to_index_values` / `apply_indices_to_index_values` against the row-level spec. -/
namespace Exetera.FilterIndex
open Exetera Exetera.Spec

theorem filterBy_nil_right {α} (bs : List Bool) : filterBy bs ([] : List α) = [] := by
  cases bs <;> rfl

theorem filterBy_length_le {α} (bs : List Bool) (xs : List α) : (filterBy bs xs).length ≤ xs.length := by
  induction bs generalizing xs with
  | nil => simp [filterBy]
  | cons b bs ih =>
    cases xs with
    | nil => simp [filterBy]
    | cons x xs =>
      have := ih xs
      cases b <;> simp [filterBy] <;> omega

/-- entry `pre.length` of `pre ++ e :: post` -/
theorem getElem?_mid {α} (pre post : List α) (e : α) : (pre ++ e :: post)[pre.length]? = some e := by
  simp

/-- pass 1 of the filter kernel counts the selected entries and their bytes -/
theorem filterPass1_spec (es : List (List Nat)) (bs : List Bool) (pre post : List (List Nat))
    (hes : es = pre ++ post) (hlen : bs.length = post.length) (count total : Nat) :
    filterPass1 (offsetsF es).dropLast ((offsetsF es).drop 1) bs pre.length count total =
      .ok (count + (filterBy bs post).length, total + (filterBy bs post).flatten.length) := by
  induction bs generalizing pre post count total with
  | nil => simp [filterPass1, filterBy]
  | cons b bs ih =>
    cases post with
    | nil => simp at hlen
    | cons e post =>
      have hlen' : bs.length = post.length := by simpa using hlen
      have hes' : es = (pre ++ [e]) ++ post := by simp [hes]
      have hk : normIdx es.length ((pre.length : Nat) : Int) = some pre.length :=
        normIdx_natCast (by simp [hes])
      have he : es[pre.length]? = some e := by rw [hes]; exact getElem?_mid pre post e
      have ih' := ih (pre ++ [e]) post hes' hlen'
      simp only [List.length_append, List.length_cons, List.length_nil, Nat.zero_add] at ih'
      cases b with
      | false =>
        simp only [filterPass1, filterBy, Bool.false_eq_true, ite_false]
        exact ih' count total
      | true =>
        simp only [filterPass1, filterBy, ite_true, entryLen_ok es _ pre.length e hk he]
        rw [ih' (count + 1) (total + e.length)]
        simp only [List.length_cons, List.flatten_cons, List.length_append]
        congr 2 <;> omega

/-- pass 2 of the filter kernel appends exactly the selected entries; every access stays inside its array -/
theorem filterPass2_spec (es : List (List Nat)) (bs : List Bool) (pre post : List (List Nat))
    (hes : es = pre ++ post) (hlen : bs.length = post.length) (sel : List (List Nat)) (kc kt : Nat)
    (hkc : kc = (filterBy bs post).length) (hkt : kt = (filterBy bs post).flatten.length) :
    filterPass2 (offsetsF es).dropLast ((offsetsF es).drop 1) es.flatten bs pre.length (p2State sel kc kt) =
      .ok (p2State (sel ++ filterBy bs post) 0 0) := by
  induction bs generalizing pre post sel kc kt with
  | nil =>
    subst hkc hkt
    simp [filterPass2, filterBy]
  | cons b bs ih =>
    cases post with
    | nil => simp at hlen
    | cons e post =>
      have hlen' : bs.length = post.length := by simpa using hlen
      have hes' : es = (pre ++ [e]) ++ post := by simp [hes]
      have hk : normIdx es.length ((pre.length : Nat) : Int) = some pre.length :=
        normIdx_natCast (by simp [hes])
      have he : es[pre.length]? = some e := by rw [hes]; exact getElem?_mid pre post e
      have ih' := ih (pre ++ [e]) post hes' hlen'
      simp only [List.length_append, List.length_cons, List.length_nil, Nat.zero_add] at ih'
      cases b with
      | false =>
        simp only [filterPass2, filterBy, Bool.false_eq_true, ite_false] at hkc hkt ⊢
        exact ih' sel kc kt hkc hkt
      | true =>
        simp only [filterBy, ite_true, List.length_cons, List.flatten_cons, List.length_append] at hkc hkt
        simp only [filterPass2, filterBy, ite_true]
        rw [copyEntry_ok es _ pre.length e hk he sel kc kt (by omega) (by omega)]
        simp only
        rw [ih' (sel ++ [e]) (kc - 1) (kt - e.length) (by omega) (by omega)]
        simp

theorem initP2_eq (count total : Nat) : initP2 count total = .ok (p2State [] count total) := by
  simp [initP2, p2State, setE, offsetsF, offsetsFromF, List.replicate_succ, bind, Except.bind, pure, Except.pure]

theorem p2State_done (sel : List (List Nat)) :
    (p2State sel 0 0).di = offsetsF sel ∧ (p2State sel 0 0).dv = sel.flatten := by
  simp [p2State]

/-- pass 1 of the re-index kernel -/
theorem indexPass1_spec (v : Variant) (es : List (List Nat)) (idx : List Int) (rows : List (List Nat))
    (h : gather es idx = some rows) (count total : Nat) :
    indexPass1 v (offsetsF es).dropLast ((offsetsF es).drop 1) idx count total =
      .ok (count + rows.length, total + rows.flatten.length) := by
  induction idx generalizing rows count total with
  | nil =>
    simp [gather] at h; subst h; simp [indexPass1]
  | cons i is ih =>
    simp only [gather] at h
    split at h
    · rename_i x r hx hr
      simp at h; subst h
      unfold rowAt at hx
      split at hx
      · rename_i k hk
        rw [← normIdx_eq_wrapIdx] at hk
        have hlt := normIdx_lt hk
        have hg : indexGuard v (offsetsF es).dropLast.length i = .ok () := by
          unfold indexGuard
          rw [cur_length]
          have : ¬ (i < -(es.length : Int) ∨ i ≥ (es.length : Int)) := by
            unfold normIdx at hk
            split at hk
            · split at hk
              · omega
              · simp at hk
            · split at hk
              · omega
              · simp at hk
          simp [this]
        simp only [indexPass1, hg, entryLen_ok es i k x hk hx]
        rw [ih r hr (count + 1) (total + x.length)]
        simp only [List.length_cons, List.flatten_cons, List.length_append]
        congr 2 <;> omega
      · simp at hx
    · simp at h

/-- pass 2 of the re-index kernel -/
theorem indexPass2_spec (es : List (List Nat)) (idx : List Int) (rows : List (List Nat))
    (h : gather es idx = some rows) (sel : List (List Nat)) (kc kt : Nat)
    (hkc : kc = rows.length) (hkt : kt = rows.flatten.length) :
    indexPass2 (offsetsF es).dropLast ((offsetsF es).drop 1) es.flatten idx (p2State sel kc kt) =
      .ok (p2State (sel ++ rows) 0 0) := by
  induction idx generalizing rows sel kc kt with
  | nil =>
    simp [gather] at h; subst h; subst hkc hkt; simp [indexPass2]
  | cons i is ih =>
    simp only [gather] at h
    split at h
    · rename_i x r hx hr
      simp at h; subst h
      unfold rowAt at hx
      split at hx
      · rename_i k hk
        rw [← normIdx_eq_wrapIdx] at hk
        simp only [List.length_cons, List.flatten_cons, List.length_append] at hkc hkt
        simp only [indexPass2]
        rw [copyEntry_ok es i k x hk hx sel kc kt (by omega) (by omega)]
        simp only
        rw [ih r hr (sel ++ [x]) (kc - 1) (kt - x.length) (by omega) (by omega)]
        simp
      · simp at hx
    · simp at h

/-- the first out-of-range subscript stops pass 1 of the repaired kernel with an IndexError, before anything is allocated -/
theorem indexPass1_err (es : List (List Nat)) (idx : List Int) (h : gather es idx = none) (count total : Nat) :
    ∃ site, indexPass1 .repaired (offsetsF es).dropLast ((offsetsF es).drop 1) idx count total = .error (.oob site) := by
  induction idx generalizing count total with
  | nil => simp [gather] at h
  | cons i is ih =>
    cases hr : rowAt es i with
    | none =>
      have hk : normIdx es.length i = none := by
        unfold rowAt at hr
        split at hr
        · rename_i k hk
          rw [← normIdx_eq_wrapIdx] at hk
          have := normIdx_lt hk
          simp at hr; omega
        · rename_i hk; rw [← normIdx_eq_wrapIdx] at hk; exact hk
      have hg : indexGuard .repaired (offsetsF es).dropLast.length i =
          .error (.oob "index out of bounds for indexed field") := by
        unfold indexGuard
        rw [cur_length]
        have : (i < -(es.length : Int) ∨ i ≥ (es.length : Int)) := by
          unfold normIdx at hk
          split at hk
          · split at hk
            · simp at hk
            · omega
          · split at hk
            · simp at hk
            · omega
        simp [this]
      exact ⟨"index out of bounds for indexed field", by simp only [indexPass1, hg]⟩
    | some x =>
      have hrest : gather es is = none := by
        simp only [gather, hr] at h
        split at h
        · simp at h
        · rename_i h'
          cases hg : gather es is with
          | none => rfl
          | some r => exact (h' x r rfl hg).elim
      unfold rowAt at hr
      split at hr
      · rename_i k hk
        rw [← normIdx_eq_wrapIdx] at hk
        have hlt := normIdx_lt hk
        have hg : indexGuard .repaired (offsetsF es).dropLast.length i = .ok () := by
          unfold indexGuard
          rw [cur_length]
          have : ¬ (i < -(es.length : Int) ∨ i ≥ (es.length : Int)) := by
            unfold normIdx at hk
            split at hk
            · split at hk
              · omega
              · simp at hk
            · split at hk
              · omega
              · simp at hk
          simp [this]
        obtain ⟨site, hs⟩ := ih hrest (count + 1) (total + x.length)
        exact ⟨site, by simp only [indexPass1, hg, entryLen_ok es i k x hk hr, hs]⟩
      · simp at hr

end Exetera.FilterIndex
