import Exetera.Props.C09
import Exetera.Props.C10.Basic
import Exetera.Model.KernelSitesFilterIndex
import Exetera.Model.KernelPathsFilterIndex
/-!
# C10 — the filter / re-index kernels of indexed strings (owning property: C09)

The plain-array paths of `apply_filter` / `apply_index` / `sort_values` are numpy indexing (`data[filter]`, `data[index]`):
their bounds are numpy's (trusted base); `np.lexsort`-based `dataset_sort_index` has no compiled kernel.
-/
namespace Exetera.Props.C10
open Exetera Exetera.FilterIndex Exetera.Spec

theorem access_sites_covered_filter_index : ∀ k ∈ KernelSites.filterIndexSites, lookup k.1 = some k := by decide +kernel

/-- the PATH CONDITION of every subscript occurrence in these kernels (enclosing loop guards, `if` / `elif` tests, negated
    `else` branches and early exits), as regenerated from the current source (`Gen/KernelPaths.lean`), is exactly the one the
    model was written against (`Model/KernelPathsFilterIndex.lean`): dropping or changing a test that dominates a subscript breaks
    the build; and the table covers exactly the kernels of the site table -/
theorem access_paths_covered_filter_index :
    (∀ k ∈ KernelPaths.filterIndexPaths, lookupPaths k.1 = some k) ∧
    KernelPaths.filterIndexPaths.map (·.1) = KernelSites.filterIndexSites.map (·.1) := by decide +kernel

example : KernelSites.filterIndexSites.length = 2 := by decide

/-- `apply_filter_to_index_values` (as found and as repaired) on the stored form of any column of byte strings and a
    filter with one entry per row: no out-of-bounds access in either pass; the exactly-sized destination buffers are
    never overrun whatever the number of rows kept -/
theorem no_oob_apply_filter_to_index_values (v : Variant) (es : List (List Nat)) (flt : List Bool)
    (h : flt.length = es.length) (site : String) :
    applyFilterToIndexValues v flt (offsetsF es) es.flatten ≠ .error (.oob site) :=
  ne_oob_of_ok (C09.filter_indexed_eq v es flt h) site

example : applyFilterToIndexValues .repaired [true, false, true] (offsetsF [[1], [2, 2], [3]]) [1, 2, 2, 3]
    = .ok ([0, 1, 2], [1, 3]) := by rfl

/-- D8 as repaired: a filter of any other length is refused before any subscript is evaluated — the refusal IS the
    model's `.oob`, so the hypothesis of the theorem above is exactly the domain on which no `.oob` occurs -/
theorem apply_filter_oob_of_length_mismatch (flt : List Bool) (indices values : List Nat)
    (h : flt.length ≠ indices.length - 1) :
    ∃ site, applyFilterToIndexValues .repaired flt indices values = .error (.oob site) :=
  ⟨_, C09.filter_indexed_length_mismatch flt indices values h⟩

/-- `apply_indices_to_index_values` on the stored form of any column and subscripts that all address a row
    (`-len ≤ i < len`): no out-of-bounds access -/
theorem no_oob_apply_indices_to_index_values (v : Variant) (es : List (List Nat)) (idx : List Int) (rows : List (List Nat))
    (h : gather es idx = some rows) (site : String) :
    applyIndicesToIndexValues v idx (offsetsF es) es.flatten ≠ .error (.oob site) :=
  ne_oob_of_ok (C09.index_indexed_eq v es idx rows h) site

/-- …and exactly then (NC09b as repaired): the repaired kernel ends in an `.oob` iff some subscript addresses no row -/
theorem apply_indices_oob_iff (es : List (List Nat)) (idx : List Int) :
    (∃ site, applyIndicesToIndexValues .repaired idx (offsetsF es) es.flatten = .error (.oob site)) ↔
      gather es idx = none := by
  constructor
  · rintro ⟨site, h⟩
    cases hg : gather es idx with
    | none => rfl
    | some rows => exact absurd h (no_oob_apply_indices_to_index_values .repaired es idx rows hg site)
  · exact C09.index_indexed_out_of_range es idx

example : gather [[1], [2, 2], [3]] [2, -3, 1] = some [[3], [1], [2, 2]] := by decide
example : applyIndicesToIndexValues .repaired [2, -3, 1] (offsetsF [[1], [2, 2], [3]]) [1, 2, 2, 3]
    = .ok ([0, 1, 2, 4], [3, 1, 2, 2]) := by rfl
example : gather [[1], [2, 2], [3]] [3] = none := by decide

/-- field level (`FieldDataOps.apply_filter_to_field` / `…_to_indexed_field`, any field kind): a filter of the column's
    length never makes the repaired code index out of bounds -/
theorem no_oob_filter_payload (p : Payload) (c c' : Column) (bs : List Bool) (h : Encodes p c)
    (hf : c.filter bs = some c') (site : String) : filterPayload .repaired bs p ≠ .error (.oob site) :=
  ne_oob_of_exists ((C09.filter_payload_spec p c bs h).1 c' hf) site

theorem no_oob_index_payload (p : Payload) (c c' : Column) (idx : List Int) (h : Encodes p c)
    (hg : c.gather idx = some c') (site : String) : indexPayload .repaired idx p ≠ .error (.oob site) :=
  ne_oob_of_exists ((C09.index_payload_spec p c idx h).1 c' hg) site

end Exetera.Props.C10
