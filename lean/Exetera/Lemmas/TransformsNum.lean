import Exetera.Lemmas.TransformsFixed
/-! C06: the validation-mode branches of `transform_int` / `transform_float` against the table `numericColumn`. -/
namespace Exetera.Transforms
open Exetera Exetera.Spec.Transforms

/-- class of an element text under a parser -/
def classOf {V} (parse : Bytes → Parsed V) (t : Bytes) : CellClass V :=
  if npNonEmpty t then
    match parse t with
    | .val v => .value v
    | .bad => .garbage
    | .overflow => .outOfRange
  else .empty

theorem numericColumn_cons {V} (mode : Mode) (inv : V) (k : CellClass V) (ks : List (CellClass V)) :
    numericColumn mode inv (k :: ks) = consCell (numericCell mode inv k) (numericColumn mode inv ks) := rfl

theorem classOf_empty {V} (parse : Bytes → Parsed V) (t : Bytes) (h : npNonEmpty t = false) :
    classOf parse t = .empty := by simp [classOf, h]
theorem classOf_val {V} (parse : Bytes → Parsed V) (t : Bytes) (v : V) (h : npNonEmpty t = true) (hp : parse t = .val v) :
    classOf parse t = .value v := by simp [classOf, h, hp]
theorem classOf_bad {V} (parse : Bytes → Parsed V) (t : Bytes) (h : npNonEmpty t = true) (hp : parse t = .bad) :
    classOf parse t = .garbage := by simp [classOf, h, hp]
theorem classOf_overflow {V} (parse : Bytes → Parsed V) (t : Bytes) (h : npNonEmpty t = true) (hp : parse t = .overflow) :
    classOf parse t = .outOfRange := by simp [classOf, h, hp]

theorem strict_spec {V} (parse : Bytes → Parsed V) (inv : V) (hblank : ∀ t, npNonEmpty t = false → parse t = .bad)
    (ts : List Bytes) :
    (astypeAll parse ts).toOption = (numericColumn .strict inv (ts.map (classOf parse))).map (·.1) := by
  induction ts with
  | nil => rfl
  | cons t ts ih =>
    simp only [List.map_cons, numericColumn_cons]
    rw [astypeAll]
    generalize numericColumn Mode.strict inv (ts.map (classOf parse)) = col at ih ⊢
    cases hne : npNonEmpty t with
    | false =>
      rw [classOf_empty parse t hne, hblank t hne]
      simp [numericCell, consCell, Except.toOption]
    | true =>
      cases hp : parse t with
      | bad => rw [classOf_bad parse t hne hp]; simp [numericCell, consCell, Except.toOption]
      | overflow => rw [classOf_overflow parse t hne hp]; simp [numericCell, consCell, Except.toOption]
      | val v =>
        rw [classOf_val parse t v hne hp]
        cases ha : astypeAll parse ts <;> cases col <;> simp_all [numericCell, consCell, Except.toOption]

theorem allowEmpty_spec {V} (parse : Bytes → Parsed V) (invText : Bytes) (inv : V) (hinv : parse invText = .val inv)
    (ts : List Bytes) :
    (astypeAll parse (ts.map (fun t => if npNonEmpty t then t else invText))).toOption.map (fun vs => (vs, ts.map npNonEmpty))
      = numericColumn .allowEmpty inv (ts.map (classOf parse)) := by
  induction ts with
  | nil => rfl
  | cons t ts ih =>
    simp only [List.map_cons, numericColumn_cons]
    rw [astypeAll, ← ih]
    generalize astypeAll parse (ts.map (fun t => if npNonEmpty t then t else invText)) = tail
    cases hne : npNonEmpty t with
    | false =>
      rw [classOf_empty parse t hne]
      simp only [Bool.false_eq_true, if_false, hinv, numericCell]
      cases tail <;> simp [consCell, Except.toOption]
    | true =>
      simp only [if_true]
      cases hp : parse t with
      | bad => rw [classOf_bad parse t hne hp]; simp [numericCell, consCell, Except.toOption]
      | overflow => rw [classOf_overflow parse t hne hp]; simp [numericCell, consCell, Except.toOption]
      | val v =>
        rw [classOf_val parse t v hne hp]
        cases tail <;> simp [numericCell, consCell, Except.toOption]

theorem relaxed_spec {V} (parse : Bytes → Parsed V) (inv : V) (hblank : ∀ t, npNonEmpty t = false → parse t = .bad)
    (ts : List Bytes) :
    (relaxedAll parse inv ts).toOption = numericColumn .relaxed inv (ts.map (classOf parse)) := by
  induction ts with
  | nil => rfl
  | cons t ts ih =>
    simp only [List.map_cons, numericColumn_cons]
    rw [relaxedAll, ← ih]
    generalize relaxedAll parse inv ts = tail
    cases hne : npNonEmpty t with
    | false =>
      rw [classOf_empty parse t hne, hblank t hne]
      cases tail <;> simp [numericCell, consCell, Except.toOption]
    | true =>
      cases hp : parse t with
      | overflow => rw [classOf_overflow parse t hne hp]; simp [numericCell, consCell, Except.toOption]
      | bad => rw [classOf_bad parse t hne hp]; cases tail <;> simp [numericCell, consCell, Except.toOption]
      | val v => rw [classOf_val parse t v hne hp]; cases tail <;> simp [numericCell, consCell, Except.toOption]

end Exetera.Transforms

namespace Exetera.Transforms
open Exetera Exetera.Spec.Transforms

/-- `int()` of a text made of whitespace and NULs only fails -/
theorem parseIntPy_blank (t : Bytes) (h : npNonEmpty t = false) : parseIntPy t = none := by
  have hall : ∀ b ∈ t, isSpaceByte b = true ∨ b = 0 := by
    intro b hb
    have := List.any_eq_false.mp h b hb
    cases hs : isSpaceByte b with
    | true => exact Or.inl rfl
    | false => right; simpa [hs] using this
  unfold parseIntPy stripSpace
  cases hd : t.dropWhile isSpaceByte with
  | nil => simp
  | cons b d' =>
    have hb : isSpaceByte b = false := by
      have := List.head_dropWhile_not (p := isSpaceByte) (l := t) (by rw [hd]; simp)
      simpa [hd] using this
    have hmem : b ∈ t := (List.dropWhile_sublist isSpaceByte).subset (by rw [hd]; simp)
    have hb0 : b = 0 := by
      rcases hall b hmem with h1 | h1
      · rw [h1] at hb; cases hb
      · exact h1
    subst hb0
    have : ∃ rest, ((0 :: d').reverse.dropWhile isSpaceByte).reverse = 0 :: rest := by
      rw [List.reverse_cons, List.dropWhile_append]
      split
      · exact ⟨[], by simp [List.dropWhile, hb]⟩
      · exact ⟨(d'.reverse.dropWhile isSpaceByte).reverse, by simp⟩
    obtain ⟨rest, hr⟩ := this
    rw [hr]
    simp [digitsVal, isDigit]

theorem parseIntRange_blank (lo hi : Int) (t : Bytes) (h : npNonEmpty t = false) : parseIntRange lo hi t = .bad := by
  simp [parseIntRange, parseIntPy_blank t h]

end Exetera.Transforms
