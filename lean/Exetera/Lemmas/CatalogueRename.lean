import Exetera.Spec.Catalogue
import Exetera.Lemmas.CatalogueTables
/-! The two-pass `rename`: the planning functions, and the h5 moves never being refused. -/
namespace Exetera.Catalogue

/-! ### local dictionaries -/

theorem lookN_eq_none {β} {t : List (Name × β)} {k : Name} : lookN t k = none ↔ k ∉ t.map (·.1) := by
  induction t with
  | nil => simp [lookN]
  | cons e t ih =>
    obtain ⟨k', v⟩ := e
    simp only [lookN, List.map_cons, List.mem_cons, not_or]
    split
    · next h => simp [h]
    · next h => rw [ih]; constructor
                · intro h1; exact ⟨fun h2 => h h2.symm, h1⟩
                · intro h1; exact h1.2

theorem lookN_mem {β} {t : List (Name × β)} {k : Name} {v : β} (h : lookN t k = some v) : (k, v) ∈ t := by
  induction t with
  | nil => simp [lookN] at h
  | cons e t ih =>
    obtain ⟨k', v'⟩ := e
    simp only [lookN] at h
    split at h
    · next h' => subst h'; simp at h; simp [h]
    · exact List.mem_cons_of_mem _ (ih h)

theorem lookN_of_mem {β} {t : List (Name × β)} (hn : (t.map (·.1)).Nodup) {k : Name} {v : β} (h : (k, v) ∈ t) :
    lookN t k = some v := by
  induction t with
  | nil => simp at h
  | cons e t ih =>
    obtain ⟨k', v'⟩ := e
    simp only [List.map_cons, List.nodup_cons] at hn
    simp only [List.mem_cons, Prod.mk.injEq] at h
    simp only [lookN]
    rcases h with ⟨rfl, rfl⟩ | h
    · simp
    · split
      · next heq => subst heq; exact absurd (List.mem_map.2 ⟨(k', v), h, rfl⟩) hn.1
      · exact ih hn.2 h

theorem setN_fresh {β} {t : List (Name × β)} {k : Name} (v : β) (h : k ∉ t.map (·.1)) : setN t k v = t ++ [(k, v)] := by
  simp [setN, h]

theorem foldl_setN_nodup {β} (acc ps : List (Name × β)) (hn : ((acc ++ ps).map (·.1)).Nodup) :
    ps.foldl (fun d p => setN d p.1 p.2) acc = acc ++ ps := by
  induction ps generalizing acc with
  | nil => simp
  | cons p ps ih =>
    simp only [List.foldl_cons]
    have hfresh : p.1 ∉ acc.map (·.1) := by
      simp only [List.map_append, List.map_cons] at hn
      have := (List.nodup_append.1 hn).2.2
      intro hmem
      exact this _ hmem _ (List.mem_cons_self) rfl
    rw [setN_fresh _ hfresh, ih]
    · simp
    · simpa using hn

/-- a list of pairs with distinct keys is already the dictionary it builds -/
theorem fromPairs_nodup {β} (ps : List (Name × β)) (hn : (ps.map (·.1)).Nodup) : fromPairs ps = ps := by
  unfold fromPairs
  rw [foldl_setN_nodup [] ps (by simpa using hn)]
  simp

/-! ### the clash pre-check -/

theorem clashes_nil {ks vs : List Name} : clashes ks vs = [] ↔ vs.Nodup ∧ ∀ v ∈ vs, v ∉ ks := by
  induction vs generalizing ks with
  | nil => simp [clashes]
  | cons v vs ih =>
    simp only [clashes, List.nodup_cons, List.mem_cons, forall_eq_or_imp]
    split
    · next h => simp [h]
    · next h =>
      rw [ih]
      simp only [List.mem_cons, not_or]
      constructor
      · rintro ⟨h1, h2⟩
        refine ⟨⟨fun hm => (h2 v hm).1 rfl, h1⟩, h, fun a ha => (h2 a ha).2⟩
      · rintro ⟨⟨h1, h2⟩, _, h4⟩
        exact ⟨h2, fun a ha => ⟨fun heq => h1 (heq ▸ ha), h4 a ha⟩⟩

/-! ### `get_unique_name` -/

theorem le_maxLen {used : List Name} {n : Name} (h : n ∈ used) : n.length ≤ maxLen used := by
  induction used with
  | nil => simp at h
  | cons m ms ih =>
    simp only [List.mem_cons] at h
    simp only [maxLen]
    rcases h with rfl | h
    · exact Nat.le_max_left _ _
    · exact Nat.le_trans (ih h) (Nat.le_max_right _ _)

theorem freshName_not_mem {used : List Name} {fuel : Nat} {name u : Name} (h : freshName used fuel name = some u) : u ∉ used := by
  induction fuel generalizing name with
  | zero =>
    simp only [freshName] at h
    split at h
    · cases h
    · next hn => cases h; exact hn
  | succ n ih =>
    simp only [freshName] at h
    split at h
    · exact ih h
    · next hn => cases h; exact hn

theorem freshName_some (used : List Name) (fuel : Nat) (name : Name) (h : maxLen used < name.length + fuel) :
    ∃ u, freshName used fuel name = some u := by
  induction fuel generalizing name with
  | zero =>
    simp only [freshName]
    split
    · next hm => have := le_maxLen hm; omega
    · exact ⟨_, rfl⟩
  | succ n ih =>
    simp only [freshName]
    split
    · apply ih
      have : (name ++ "_").length = name.length + 1 := by rw [String.length_append]; rfl
      omega
    · exact ⟨_, rfl⟩

/-- the loop of `get_unique_name` terminates with a name outside `used` -/
theorem freshName_total (used : List Name) (t : Name) : ∃ u, freshName used (freshFuel used t) t = some u ∧ u ∉ used := by
  obtain ⟨u, hu⟩ := freshName_some used (freshFuel used t) t (by unfold freshFuel; omega)
  exact ⟨u, hu, freshName_not_mem hu⟩

/-! ### a sequence of h5 moves with distinct present sources and distinct absent destinations goes through -/

/-- the key map of a list of moves inside group `g` -/
def moveKey (g : Nat) (ms : List (Name × Name)) (k : Key) : Key :=
  if k.1 = g then (g, (lookN ms k.2).getD k.2) else k

theorem moveKey_nil (g : Nat) (k : Key) : moveKey g [] k = k := by
  unfold moveKey; split
  · next h => simp [lookN, ← h]
  · rfl

theorem applyMoves_ok (g : Nat) (ms : List (Name × Name)) (t : Table)
    (hs : (ms.map (·.1)).Nodup) (hsin : ∀ a ∈ ms.map (·.1), (g, a) ∈ keys t)
    (hd : (ms.map (·.2)).Nodup) (hdout : ∀ b ∈ ms.map (·.2), (g, b) ∉ keys t) :
    applyMoves g ms t = .ok (t.map fun e => (moveKey g ms e.1, e.2)) := by
  induction ms generalizing t with
  | nil =>
    simp only [applyMoves]
    congr 1
    conv => lhs; rw [← List.map_id t]
    apply List.map_congr_left
    intro e _
    simp [moveKey_nil]
  | cons m ms ih =>
    obtain ⟨a, b⟩ := m
    simp only [List.map_cons, List.nodup_cons, List.mem_cons, forall_eq_or_imp] at hs hsin hd hdout
    have hab : a ≠ b := by
      intro h; subst h; exact hdout.1 hsin.1
    simp only [applyMoves, h5Move, hab, if_false, hsin.1, not_true_eq_false, hdout.1]
    rw [ih]
    · -- the composed key maps agree on every entry
      simp only [rekey, List.map_map]
      congr 1
      apply List.map_congr_left
      intro e he
      simp only [Function.comp]
      have hb_not_src : b ∉ ms.map (·.1) := fun hm => hdout.1 (hsin.2 b hm)
      split
      · next hk =>
        simp only [moveKey, hk, if_true, lookN]
        simp only [lookN_eq_none.2 hb_not_src, Option.getD_none, Option.getD_some]
      · next hk =>
        congr 1
        simp only [moveKey]
        split
        · next hg =>
          have hne : a ≠ e.1.2 := by
            intro heq; apply hk; rw [heq, ← hg]
          simp only [lookN, hne, if_false]
        · rfl
    · exact hs.2
    · intro a' ha'
      rw [mem_keys_rekey hsin.1]
      right
      refine ⟨hsin.2 a' ha', ?_⟩
      intro heq
      simp only [Prod.mk.injEq, true_and] at heq
      subst heq; exact hs.1 ha'
    · exact hd.2
    · intro b' hb'
      rw [mem_keys_rekey hsin.1]
      rintro (heq | ⟨h1, _⟩)
      · simp only [Prod.mk.injEq, true_and] at heq
        subst heq; exact hd.1 hb'
      · exact hdout.2 b' hb' h1

/-- moves onto the same name are skipped by h5py -/
theorem applyMoves_skip (g : Nat) (ms : List (Name × Name)) (t : Table) :
    applyMoves g ms t = applyMoves g (ms.filter fun m => m.1 ≠ m.2) t := by
  induction ms generalizing t with
  | nil => rfl
  | cons m ms ih =>
    obtain ⟨a, b⟩ := m
    by_cases hab : a = b
    · subst hab
      simp only [applyMoves, h5Move, if_true, List.filter_cons, ne_eq, not_true_eq_false, decide_false]
      exact ih t
    · simp only [List.filter_cons, ne_eq, hab, not_false_eq_true, decide_true, if_true, applyMoves]
      split
      · rfl
      · exact ih _

/-! ### the first pass, planning part -/

theorem plan1_total (cur : List Name) (dict : List (Name × Name)) (cs : List (Name × Nat)) (reserved : List Name) :
    ∃ p, plan1 .repaired cur dict cs reserved = some p := by
  induction cs generalizing reserved with
  | nil => exact ⟨[], rfl⟩
  | cons e cs ih =>
    obtain ⟨k, h⟩ := e
    simp only [plan1]
    split
    · obtain ⟨p, hp⟩ := ih reserved; rw [hp]; exact ⟨_, rfl⟩
    · next t _ =>
      split
      · obtain ⟨u, hu, _⟩ := freshName_total reserved t
        rw [hu]
        obtain ⟨p, hp⟩ := ih (u :: reserved); simp only [hp]; exact ⟨_, rfl⟩
      · obtain ⟨p, hp⟩ := ih reserved; rw [hp]; exact ⟨_, rfl⟩

theorem plan1_spec {cur : List Name} {dict : List (Name × Name)} {cs : List (Name × Nat)} {reserved : List Name} {p : List Step1}
    (h : plan1 .repaired cur dict cs reserved = some p) (hres : ∀ x ∈ dict.map (·.2), x ∈ reserved) :
    p.map (fun st => (st.k, st.h)) = cs ∧
    (∀ st ∈ p, st.target = lookN dict st.k ∧ (st.target = none → st.uname = st.k) ∧
       (∀ t, st.target = some t → (st.uname = t ∧ t ∉ cur) ∨ (st.uname ∉ reserved ∧ t ∈ cur))) ∧
    p.Pairwise (fun a b => ∀ ta tb, a.target = some ta → b.target = some tb → tb ∈ cur → b.uname ≠ a.uname) := by
  induction cs generalizing reserved p with
  | nil => simp only [plan1, Option.some.injEq] at h; subst h; simp
  | cons e cs ih =>
    obtain ⟨k, hh⟩ := e
    simp only [plan1] at h
    split at h
    · next hlk =>
      cases hp : plan1 .repaired cur dict cs reserved with
      | none => rw [hp] at h; simp at h
      | some p' =>
        rw [hp] at h; simp only [Option.map_some, Option.some.injEq] at h; subst h
        obtain ⟨i1, i2, i3⟩ := ih hp hres
        refine ⟨by simp [i1], ?_, ?_⟩
        · intro st hst
          simp only [List.mem_cons] at hst
          rcases hst with rfl | hst
          · exact ⟨hlk.symm, fun _ => rfl, fun t ht => by simp at ht⟩
          · exact i2 st hst
        · rw [List.pairwise_cons]
          exact ⟨fun b _ ta tb hta => by simp at hta, i3⟩
    · next t hlk =>
      split at h
      · next htc =>
        split at h
        · simp at h
        · next u hu =>
          cases hp : plan1 .repaired cur dict cs (u :: reserved) with
          | none => rw [hp] at h; simp at h
          | some p' =>
            rw [hp] at h; simp only [Option.map_some, Option.some.injEq] at h; subst h
            obtain ⟨i1, i2, i3⟩ := ih hp (fun x hx => List.mem_cons_of_mem _ (hres x hx))
            have hu' := freshName_not_mem hu
            refine ⟨by simp [i1], ?_, ?_⟩
            · intro st hst
              simp only [List.mem_cons] at hst
              rcases hst with rfl | hst
              · exact ⟨hlk.symm, fun hn => by simp at hn, fun t' ht' => by
                  simp only [Option.some.injEq] at ht'; subst ht'; exact Or.inr ⟨hu', htc⟩⟩
              · obtain ⟨j1, j2, j3⟩ := i2 st hst
                refine ⟨j1, j2, fun t' ht' => ?_⟩
                rcases j3 t' ht' with j | j
                · exact Or.inl j
                · exact Or.inr ⟨fun hm => j.1 (List.mem_cons_of_mem _ hm), j.2⟩
            · rw [List.pairwise_cons]
              refine ⟨?_, i3⟩
              intro b hb ta tb _ htb htbc
              rcases (i2 b hb).2.2 tb htb with j | j
              · exact absurd htbc j.2
              · intro heq; exact j.1 (by rw [heq]; exact List.mem_cons_self)
      · next htc =>
        cases hp : plan1 .repaired cur dict cs reserved with
        | none => rw [hp] at h; simp at h
        | some p' =>
          rw [hp] at h; simp only [Option.map_some, Option.some.injEq] at h; subst h
          obtain ⟨i1, i2, i3⟩ := ih hp hres
          have htres : t ∈ reserved := hres t (List.mem_map.2 ⟨(k, t), lookN_mem hlk, rfl⟩)
          refine ⟨by simp [i1], ?_, ?_⟩
          · intro st hst
            simp only [List.mem_cons] at hst
            rcases hst with rfl | hst
            · exact ⟨hlk.symm, fun hn => by simp at hn, fun t' ht' => by
                simp only [Option.some.injEq] at ht'; subst ht'; exact Or.inl ⟨rfl, htc⟩⟩
            · exact i2 st hst
          · rw [List.pairwise_cons]
            refine ⟨?_, i3⟩
            intro b hb ta tb _ htb htbc
            rcases (i2 b hb).2.2 tb htb with j | j
            · exact absurd htbc j.2
            · intro heq; exact j.1 (by rw [heq]; exact htres)

theorem pair_inj {α β} {l : List (α × β)} (hn : (l.map (·.2)).Nodup) {a a' : α} {b : β} (h1 : (a, b) ∈ l) (h2 : (a', b) ∈ l) : a = a' := by
  induction l with
  | nil => simp at h1
  | cons e t ih =>
    simp only [List.map_cons, List.nodup_cons, List.mem_map, not_exists, not_and] at hn
    simp only [List.mem_cons] at h1 h2
    rcases h1 with h1 | h1 <;> rcases h2 with h2 | h2
    · rw [← h1] at h2; exact ((Prod.mk.inj h2).1).symm
    · subst h1; exact absurd rfl (hn.1 (a', b) h2)
    · subst h2; exact absurd rfl (hn.1 (a, b) h1)
    · exact ih hn.2 h1 h2

/-- everything the second pass and the final state need to know about a plan -/
structure PlanFacts (cur : List Name) (dict : List (Name × Name)) (cs : List (Name × Nat)) (p : List Step1) : Prop where
  shape : p.map (fun st => (st.k, st.h)) = cs
  target : ∀ st ∈ p, st.target = lookN dict st.k
  keep : ∀ st ∈ p, st.target = none → st.uname = st.k
  kcur : ∀ st ∈ p, st.k ∈ cur
  ufresh : ∀ st ∈ p, st.target ≠ none → st.uname ∉ cur
  direct : ∀ st ∈ p, ∀ t, st.target = some t → st.uname ≠ t → t ∈ cur
  pw : p.Pairwise (fun a b => a.k ≠ b.k ∧ a.uname ≠ b.uname ∧ ∀ ta tb, a.target = some ta → b.target = some tb → ta ≠ tb)

theorem planFacts {cur : List Name} {dict : List (Name × Name)} {cs : List (Name × Nat)} {p : List Step1}
    (hcur : cur = cs.map (·.1)) (hcn : cur.Nodup) (hvn : (dict.map (·.2)).Nodup)
    (h : plan1 .repaired cur dict cs (cur ++ dict.map (·.2)) = some p) : PlanFacts cur dict cs p := by
  obtain ⟨i1, i2, i3⟩ := plan1_spec h (fun x hx => List.mem_append_right _ hx)
  have hk : p.map (·.k) = cur := by
    rw [hcur, ← i1]; simp [List.map_map, Function.comp]
  have kcur : ∀ st ∈ p, st.k ∈ cur := by
    intro st hst; rw [← hk]; exact List.mem_map.2 ⟨st, hst, rfl⟩
  have ufresh : ∀ st ∈ p, st.target ≠ none → st.uname ∉ cur := by
    intro st hst hne
    cases ht : st.target with
    | none => exact absurd ht hne
    | some t =>
      rcases (i2 st hst).2.2 t ht with j | j
      · rw [j.1]; exact j.2
      · exact fun hm => j.1 (List.mem_append_left _ hm)
  have pwk : p.Pairwise (fun a b => a.k ≠ b.k) := by
    have : (p.map (·.k)).Nodup := hk ▸ hcn
    exact (List.pairwise_map.1 this)
  refine ⟨i1, fun st hst => (i2 st hst).1, fun st hst => (i2 st hst).2.1, kcur, ufresh, ?_, ?_⟩
  · intro st hst t ht hne
    rcases (i2 st hst).2.2 t ht with j | j
    · exact absurd j.1 hne
    · exact j.2
  · have := pwk.and i3
    refine this.imp_of_mem ?_
    intro a b ha hb ⟨hkab, h3⟩
    have tne : ∀ ta tb, a.target = some ta → b.target = some tb → ta ≠ tb := by
      intro ta tb hta htb heq
      subst heq
      have m1 := lookN_mem (((i2 a ha).1 ▸ hta) : lookN dict a.k = some ta)
      have m2 := lookN_mem (((i2 b hb).1 ▸ htb) : lookN dict b.k = some ta)
      exact hkab (pair_inj hvn m1 m2)
    refine ⟨hkab, ?_, tne⟩
    cases hta : a.target with
    | none =>
      rw [(i2 a ha).2.1 hta]
      cases htb : b.target with
      | none => rw [(i2 b hb).2.1 htb]; exact hkab
      | some tb => intro heq; exact ufresh b hb (by simp [htb]) (heq ▸ kcur a ha)
    | some ta =>
      cases htb : b.target with
      | none =>
        rw [(i2 b hb).2.1 htb]
        intro heq; exact ufresh a ha (by simp [hta]) (heq ▸ kcur b hb)
      | some tb =>
        rcases (i2 b hb).2.2 tb htb with j | j
        · -- b goes directly to tb
          rcases (i2 a ha).2.2 ta hta with j' | j'
          · rw [j.1, j'.1]; exact tne ta tb hta htb
          · rw [j.1]; intro heq
            exact j'.1 (heq ▸ List.mem_append_right _ (List.mem_map.2 ⟨(b.k, tb), lookN_mem ((i2 b hb).1 ▸ htb), rfl⟩))
        · exact (h3 ta tb hta htb j.2).symm

/-! ### the second pass, planning part -/

theorem filterMap_congr' {α β} {f g : α → Option β} {l : List α} (h : ∀ a ∈ l, f a = g a) : l.filterMap f = l.filterMap g := by
  induction l with
  | nil => rfl
  | cons a l ih =>
    simp only [List.filterMap_cons, h a List.mem_cons_self]
    rw [ih (fun b hb => h b (List.mem_cons_of_mem _ hb))]

theorem nodup_map_on {α β} {f : α → β} {l : List α} (H : ∀ x ∈ l, ∀ y ∈ l, f x = f y → x = y) (d : l.Nodup) : (l.map f).Nodup := by
  refine List.pairwise_map.2 (List.Pairwise.imp_of_mem ?_ d)
  intro a b ha hb hne heq
  exact hne (H a ha b hb heq)

/-- the (intermediate name ↦ final name) moves of the second pass -/
def frL (p : List Step1) : List (Name × Name) := p.filterMap (fun st => st.target.map (fun t => (st.uname, t)))

variable {cur : List Name} {dict : List (Name × Name)} {cs : List (Name × Nat)} {p : List Step1}

theorem PlanFacts.unames_nodup (F : PlanFacts cur dict cs p) : (p.map (·.uname)).Nodup :=
  List.pairwise_map.2 (F.pw.imp fun h => h.2.1)

theorem PlanFacts.intermediate_eq (F : PlanFacts cur dict cs p) : intermediate p = p.map (fun st => (st.uname, st.h)) := by
  unfold intermediate
  apply fromPairs_nodup
  rw [List.map_map]
  exact F.unames_nodup

theorem PlanFacts.frL_keys_nodup (F : PlanFacts cur dict cs p) : ((frL p).map (·.1)).Nodup := by
  unfold frL
  rw [List.map_filterMap]
  refine List.pairwise_filterMap.2 (F.pw.imp ?_)
  intro a b hab x hx y hy
  simp only [Option.map_eq_some_iff] at hx hy
  obtain ⟨_, ⟨_, _, rfl⟩, rfl⟩ := hx
  obtain ⟨_, ⟨_, _, rfl⟩, rfl⟩ := hy
  exact hab.2.1

theorem PlanFacts.frL_vals_nodup (F : PlanFacts cur dict cs p) : ((frL p).map (·.2)).Nodup := by
  unfold frL
  rw [List.map_filterMap]
  refine List.pairwise_filterMap.2 (F.pw.imp ?_)
  intro a b hab x hx y hy
  simp only [Option.map_eq_some_iff] at hx hy
  obtain ⟨_, ⟨ta, hta, rfl⟩, rfl⟩ := hx
  obtain ⟨_, ⟨tb, htb, rfl⟩, rfl⟩ := hy
  exact hab.2.2 ta tb hta htb

theorem PlanFacts.finalRenames_eq (F : PlanFacts cur dict cs p) : finalRenames p = frL p := by
  have key : finalRenames p = fromPairs (frL p) := by
    unfold finalRenames frL
    congr 1
    apply filterMap_congr'
    intro st hst
    cases ht : st.target with
    | none => rfl
    | some t =>
      have : st.uname ≠ st.k := fun heq => F.ufresh st hst (by simp [ht]) (heq ▸ F.kcur st hst)
      simp [this]
  rw [key]
  exact fromPairs_nodup _ F.frL_keys_nodup

theorem PlanFacts.look_frL (F : PlanFacts cur dict cs p) {st : Step1} (hst : st ∈ p) : lookN (frL p) st.uname = st.target := by
  cases ht : st.target with
  | none =>
    rw [lookN_eq_none]
    intro hm
    simp only [frL, List.map_filterMap, List.mem_filterMap, Option.map_eq_some_iff] at hm
    obtain ⟨st', hst', _, ⟨t', ht', rfl⟩, heq⟩ := hm
    simp only at heq
    have h1 : st.uname = st.k := F.keep st hst ht
    exact F.ufresh st' hst' (by simp [ht']) (by rw [heq, h1]; exact F.kcur st hst)
  | some t =>
    apply lookN_of_mem F.frL_keys_nodup
    simp only [frL, List.mem_filterMap, Option.map_eq_some_iff]
    exact ⟨st, hst, t, ht, rfl⟩

theorem PlanFacts.moves2_eq (F : PlanFacts cur dict cs p) : moves2 (intermediate p) (finalRenames p) = frL p := by
  rw [F.intermediate_eq, F.finalRenames_eq]
  unfold moves2
  rw [List.filterMap_map]
  conv => rhs; unfold frL
  apply filterMap_congr'
  intro st hst
  simp only [Function.comp, F.look_frL hst]

theorem PlanFacts.renOf_eq (F : PlanFacts cur dict cs p) {st : Step1} (hst : st ∈ p) : renOf dict st.k = st.target.getD st.uname := by
  unfold renOf
  rw [← F.target st hst]
  cases ht : st.target with
  | none => simp [F.keep st hst ht]
  | some t => rfl

/-- the renaming is injective on the current names when the pre-check passed -/
theorem renOf_inj (_hkn : (dict.map (·.1)).Nodup) (hvn : (dict.map (·.2)).Nodup)
    (hnc : ∀ t ∈ dict.map (·.2), t ∈ cur → t ∈ dict.map (·.1)) {a b : Name} (ha : a ∈ cur) (hb : b ∈ cur)
    (h : renOf dict a = renOf dict b) : a = b := by
  unfold renOf at h
  cases hla : lookN dict a with
  | none =>
    cases hlb : lookN dict b with
    | none => simpa [hla, hlb] using h
    | some tb =>
      simp only [hla, hlb, Option.getD_none, Option.getD_some] at h
      have := hnc tb (List.mem_map.2 ⟨(b, tb), lookN_mem hlb, rfl⟩) (h ▸ ha)
      exact absurd (h ▸ this) (lookN_eq_none.1 hla)
  | some ta =>
    cases hlb : lookN dict b with
    | none =>
      simp only [hla, hlb, Option.getD_none, Option.getD_some] at h
      have := hnc ta (List.mem_map.2 ⟨(a, ta), lookN_mem hla, rfl⟩) (h ▸ hb)
      exact absurd (h.symm ▸ this) (lookN_eq_none.1 hlb)
    | some tb =>
      simp only [hla, hlb, Option.getD_some] at h
      subst h
      exact pair_inj hvn (lookN_mem hla) (lookN_mem hlb)

theorem PlanFacts.finalCols_eq (F : PlanFacts cur dict cs p) (hcur : cur = cs.map (·.1)) (hcn : cur.Nodup)
    (hkn : (dict.map (·.1)).Nodup) (hvn : (dict.map (·.2)).Nodup)
    (hnc : ∀ t ∈ dict.map (·.2), t ∈ cur → t ∈ dict.map (·.1)) :
    finalCols (intermediate p) (finalRenames p) = cs.map (fun e => (renOf dict e.1, e.2)) := by
  rw [F.intermediate_eq, F.finalRenames_eq]
  unfold finalCols
  have h1 : (p.map (fun st => (st.uname, st.h))).map (fun e => ((lookN (frL p) e.1).getD e.1, e.2))
      = cs.map (fun e => (renOf dict e.1, e.2)) := by
    rw [← F.shape]
    simp only [List.map_map]
    apply List.map_congr_left
    intro st hst
    simp only [Function.comp, F.look_frL hst, F.renOf_eq hst]
  rw [h1]
  apply fromPairs_nodup
  have hn : (cs.map (·.1)).Nodup := hcur ▸ hcn
  have : (cs.map (fun e => (renOf dict e.1, e.2))).map (·.1) = (cs.map (·.1)).map (renOf dict) := by
    simp [List.map_map, Function.comp]
  rw [this]
  refine nodup_map_on ?_ hn
  intro a ha b hb hab
  exact renOf_inj hkn hvn hnc (hcur ▸ ha) (hcur ▸ hb) hab

theorem lookN_filter_none {β} {l : List (Name × β)} (q : Name × β → Bool) {k : Name} (h : lookN l k = none) :
    lookN (l.filter q) k = none := by
  rw [lookN_eq_none] at h ⊢
  intro hm
  simp only [List.mem_map, List.mem_filter] at hm
  obtain ⟨e, ⟨he, _⟩, rfl⟩ := hm
  exact h (List.mem_map.2 ⟨e, he, rfl⟩)

theorem lookN_filter_some {β} {l : List (Name × β)} (hn : (l.map (·.1)).Nodup) (q : Name × β → Bool) {k : Name} {v : β}
    (h : lookN l k = some v) : lookN (l.filter q) k = if q (k, v) then some v else none := by
  have hsub : ((l.filter q).map (·.1)).Nodup := (List.Sublist.map _ List.filter_sublist).nodup hn
  split
  · next hq => exact lookN_of_mem hsub (List.mem_filter.2 ⟨lookN_mem h, hq⟩)
  · next hq =>
    rw [lookN_eq_none]
    intro hm
    simp only [List.mem_map, List.mem_filter] at hm
    obtain ⟨⟨k', v'⟩, ⟨he, hq'⟩, rfl⟩ := hm
    have : lookN l k' = some v' := lookN_of_mem hn he
    simp only at h
    rw [this] at h
    cases h
    exact hq hq'

theorem moves1_keys_nodup (F : PlanFacts cur dict cs p) : ((moves1 p).map (·.1)).Nodup := by
  unfold moves1
  rw [List.map_filterMap]
  refine List.pairwise_filterMap.2 (F.pw.imp ?_)
  intro a b hab x hx y hy
  simp only [Option.map_eq_some_iff] at hx hy
  obtain ⟨_, ⟨_, _, rfl⟩, rfl⟩ := hx
  obtain ⟨_, ⟨_, _, rfl⟩, rfl⟩ := hy
  exact hab.1

theorem moves1_vals_nodup (F : PlanFacts cur dict cs p) : ((moves1 p).map (·.2)).Nodup := by
  unfold moves1
  rw [List.map_filterMap]
  refine List.pairwise_filterMap.2 (F.pw.imp ?_)
  intro a b hab x hx y hy
  simp only [Option.map_eq_some_iff] at hx hy
  obtain ⟨_, ⟨_, _, rfl⟩, rfl⟩ := hx
  obtain ⟨_, ⟨_, _, rfl⟩, rfl⟩ := hy
  exact hab.2.1

theorem mem_moves1 {a b : Name} : (a, b) ∈ moves1 p ↔ ∃ st ∈ p, st.target ≠ none ∧ st.k = a ∧ st.uname = b := by
  simp only [moves1, List.mem_filterMap, Option.map_eq_some_iff, Prod.mk.injEq]
  constructor
  · rintro ⟨st, hst, t, ht, rfl, rfl⟩; exact ⟨st, hst, by simp [ht], rfl, rfl⟩
  · rintro ⟨st, hst, hne, rfl, rfl⟩
    cases ht : st.target with
    | none => exact absurd ht hne
    | some t => exact ⟨st, hst, t, ht, rfl, rfl⟩

/-- after the first pass every column sits under its intermediate name -/
theorem look_moves1 (F : PlanFacts cur dict cs p) {st : Step1} (hst : st ∈ p) : (lookN (moves1 p) st.k).getD st.k = st.uname := by
  cases ht : st.target with
  | none =>
    have : lookN (moves1 p) st.k = none := by
      rw [lookN_eq_none]
      intro hm
      simp only [List.mem_map] at hm
      obtain ⟨⟨a, b⟩, hab, rfl⟩ := hm
      obtain ⟨st', hst', hne, hk, _⟩ := mem_moves1.1 hab
      apply hne
      rw [F.target st' hst', hk, ← F.target st hst, ht]
    rw [this, F.keep st hst ht]; rfl
  | some t =>
    have : lookN (moves1 p) st.k = some st.uname :=
      lookN_of_mem (moves1_keys_nodup F) (mem_moves1.2 ⟨st, hst, by simp [ht], rfl, rfl⟩)
    rw [this]; rfl

end Exetera.Catalogue
