import Exetera.Lemmas.UniqueOrder
import Exetera.Lemmas.While
import Exetera.Lemmas.UniqueEncode
/-! The binary search of `isin_indexed_string_speedup` on a sorted test list decides membership. -/
namespace Exetera.Unique
open Exetera Exetera.Spec

/-- ascending w.r.t. `bytesLe` (what `sorted` / `mergeSort` delivers) -/
def SortedLe (tests : List Bytes) : Prop := tests.Pairwise (fun a b => bytesLe a b = true)

theorem SortedLe.le_of_le {tests : List Bytes} (hs : SortedLe tests) {i j : Nat} (hij : i ≤ j) (hj : j < tests.length) :
    bytesLe (tests[i]'(by omega)) tests[j] = true := by
  rcases Nat.lt_or_eq_of_le hij with h | h
  · exact (List.pairwise_iff_getElem.mp hs) i j (by omega) hj h
  · subst h; exact bytesLe_refl _

/-- loop invariant of the binary search for `v` -/
def BSInv (tests : List Bytes) (v : Bytes) (s : BS) : Prop :=
  0 ≤ s.start ∧ s.stop < (tests.length : Int) ∧ s.start ≤ s.stop + 1 ∧
  (s.found = true → v ∈ tests) ∧
  (∀ (j : Nat) (h : j < tests.length), (j : Int) < s.start → lexCmp v tests[j] = 1) ∧
  (∀ (j : Nat) (h : j < tests.length), s.stop < (j : Int) → lexCmp v tests[j] = -1)

/-- variant: the width of the remaining window (0 once found) -/
def bsMu (s : BS) : Nat := if s.found then 0 else (s.stop - s.start + 1).toNat

theorem bs_step (tests : List Bytes) (v : Bytes) (hs : SortedLe tests) (s : BS)
    (hI : BSInv tests v s) (hg : bsGuard s = true) :
    ∃ s', bsBody tests v s = .ok s' ∧ BSInv tests v s' ∧ bsMu s' < bsMu s := by
  obtain ⟨h0, hstop, hss, hf, hlo, hhi⟩ := hI
  simp only [bsGuard, Bool.and_eq_true, decide_eq_true_eq, Bool.not_eq_true'] at hg
  obtain ⟨hle, hnf⟩ := hg
  have hmid0 : 0 ≤ (s.start + s.stop) / 2 := by omega
  have hmidlt : ((s.start + s.stop) / 2).toNat < tests.length := by omega
  have hmidc : (((s.start + s.stop) / 2).toNat : Int) = (s.start + s.stop) / 2 := by omega
  unfold bsBody
  simp only [show ¬ ((s.start + s.stop) / 2 < 0) by omega, if_false, getE_of_lt _ hmidlt, compareArrays_eq]
  generalize hm : ((s.start + s.stop) / 2).toNat = m at hmidlt hmidc
  rcases lexCmp_range v tests[m] with hc | hc | hc
  · -- v < tests[mid]
    refine ⟨{ s with stop := (s.start + s.stop) / 2 - 1 }, by simp [hc], ?_, ?_⟩
    · refine ⟨h0, by simp only; omega, by simp only; omega, by simpa using hf, hlo, ?_⟩
      intro j hj hjs
      simp only at hjs
      exact lexCmp_lt_of_lt_of_le hc (hs.le_of_le (by omega) hj)
    · simp only [bsMu, hnf]; simp; omega
  · -- found
    refine ⟨{ s with found := true }, by simp [hc], ?_, ?_⟩
    · refine ⟨h0, hstop, hss, ?_, hlo, hhi⟩
      intro _
      rw [lexCmp_eq_zero.mp hc]
      exact List.getElem_mem hmidlt
    · simp only [bsMu, hnf]; simp; omega
  · -- v > tests[mid]
    refine ⟨{ s with start := (s.start + s.stop) / 2 + 1 }, by simp [hc], ?_, ?_⟩
    · refine ⟨by simp only; omega, hstop, by simp only; omega, by simpa using hf, ?_, hhi⟩
      intro j hj hjs
      simp only at hjs
      exact lexCmp_gt_of_gt_of_le hc (hs.le_of_le (by omega) hmidlt)
    · simp only [bsMu, hnf]; simp; omega

/-- **binary_search_complete**: on a sorted test list the search terminates within `len(tests)` iterations, never
    subscripts out of range, and finds `v` iff `v ∈ tests` -/
theorem isinRow_eq (tests : List Bytes) (v : Bytes) (hs : SortedLe tests) :
    isinRow tests v = .ok (decide (v ∈ tests)) := by
  unfold isinRow
  have hinit : BSInv tests v ⟨0, (tests.length : Int) - 1, false⟩ :=
    ⟨by simp, by simp only; omega, by simp only; omega, by simp, by intro j _ h; simp only at h; omega,
     by intro j h h'; simp only at h'; omega⟩
  obtain ⟨s', hw, hI, hg⟩ := whileE_rule bsGuard (bsBody tests v) (BSInv tests v) bsMu
    (fun s hI hg => bs_step tests v hs s hI hg) tests.length _ hinit (by simp [bsMu])
  rw [hw]
  obtain ⟨h0, hstop, hss, hf, hlo, hhi⟩ := hI
  simp only [bsGuard, Bool.and_eq_false_iff, decide_eq_false_iff_not, Bool.not_eq_false'] at hg
  have key : s'.found = decide (v ∈ tests) := by
    cases hfd : s'.found with
    | true => exact (decide_eq_true (hf hfd)).symm
    | false =>
      have hgt : s'.stop < s'.start := by
        rcases hg with h | h
        · omega
        · simp [hfd] at h
      symm
      apply decide_eq_false
      intro hmem
      obtain ⟨j, hj, rfl⟩ := List.getElem_of_mem hmem
      have hself := lexCmp_self tests[j]
      by_cases hc : (j : Int) < s'.start
      · have := hlo j hj hc; omega
      · have := hhi j hj (by omega); omega
  simp [key]

/-! ### the row loop and the Python wrapper -/

theorem isinLoop_encode (tests : List Bytes) (col : List Bytes) (hs : SortedLe tests) :
    ∀ (k i : Nat) (acc : List Bool), i + k = col.length →
      isinLoop tests (encode col).1 (encode col).2 col.length k i acc
        = .ok (acc ++ (col.drop i).map (fun v => decide (v ∈ tests))) := by
  intro k
  induction k with
  | zero => intro i acc h; simp [isinLoop]; omega
  | succ k ih =>
    intro i acc h
    have hi : i < col.length := by omega
    obtain ⟨lo, hi', h1, h2, h3, _⟩ := encode_row col i hi
    rw [isinLoop, h1, h2]
    simp only [h3, isinRow_eq tests _ hs, hi, if_true]
    rw [ih (i + 1) _ (by omega), List.drop_eq_getElem_cons hi]
    simp only [List.map_cons, List.append_assoc, List.singleton_append]

theorem isinSpeedup_encode (tests col : List Bytes) (hs : SortedLe tests) :
    isinSpeedup tests (encode col).1 (encode col).2 = .ok (Spec.isin col tests) := by
  unfold isinSpeedup
  rw [encode_rows, isinLoop_encode tests col hs col.length 0 [] (by omega)]
  simp [Spec.isin]

theorem sortedStr_sorted (xs : List Bytes) : SortedLe (sortedStr xs) :=
  List.pairwise_mergeSort bytesLe_trans bytesLe_total xs

theorem mem_sortedStr {xs : List Bytes} {v : Bytes} : v ∈ sortedStr xs ↔ v ∈ xs :=
  (List.mergeSort_perm xs bytesLe).mem_iff

end Exetera.Unique
