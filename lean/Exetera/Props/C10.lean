import Exetera.Props.C12
import Exetera.Model.KernelSitesJoin
import Exetera.Gen.KernelShape
import Exetera.Props.C10.Basic
import Exetera.Props.C10.MapValid
import Exetera.Props.C10.Spans
import Exetera.Props.C10.FilterIndex
import Exetera.Props.C10.Unique
import Exetera.Props.C10.Concat
import Exetera.Props.C10.Journal
import Exetera.Props.C10.Transforms
import Exetera.Props.C10.Csv
import Exetera.Props.C10.JoinFlat
/-!
# C10 — compiled kernels never touch memory outside their arrays (join kernels part)

Every array subscript of a modelled kernel goes through a checked accessor (`getE`, `push`), which yields
`.error (.oob site)` when out of range. So each `… = .ok …` refinement theorem is a memory-safety theorem for the model's
accesses; `access_sites_covered_join` ties the model's access set to the source's.
What no model exhibits: the effect of an actual stray write on the heap.
-/
namespace Exetera.Props.C10
open Exetera Exetera.Join Exetera.Spec

/-- the loop guards and subscripts of the modelled join kernels, as regenerated from the current source, are exactly the
    ones the model was written against -/
theorem access_sites_covered_join : ∀ k ∈ KernelSites.joinSites, lookup k.1 = some k := by decide +kernel

/-- no out-of-bounds access at any site, in any of the eight join-map generators, for every valid input and every chunk
    size ≥ 1; in particular the chunk-sized result buffers are never overrun whatever the ratio of matches to rows -/
theorem no_oob_join_streamed (v : Variant) {L R : List Int} {cs : Nat} (inv : Int) (hcs : 0 < cs) (hv : C12.Valid v L R)
    (fuel : Nat) (hfuel : C12.bound L R ≤ fuel) (site : String) :
    streamed v fuel cs inv L R ≠ .error (.oob site) := by
  obtain ⟨o, ho, _⟩ := C12.join_streamed_terminates v inv hcs hv fuel hfuel
  rw [ho]; intro h; cases h

/-- the write `result[r] = …` is refused by the model exactly when `r` is not below the buffer size -/
theorem push_oob_iff (cap : Nat) (s : K) (a b : Int) (site : String) :
    (∃ e, push cap s a b site = .error e) ↔ cap ≤ s.rb.length := by
  unfold push
  split
  · constructor
    · rintro ⟨e, h⟩; cases h
    · intro h; omega
  · constructor
    · intro _; omega
    · intro _; exact ⟨_, rfl⟩

example : KernelSites.joinSites.length = 10 := by decide

end Exetera.Props.C10
