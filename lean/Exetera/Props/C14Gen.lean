import Exetera.Props.C14
import Exetera.Lemmas.GenKernelsCompareArrays
import Exetera.Lemmas.GenKernelsUnique
/-!
  C14 over the TRANSLATED `compare_arrays` (`Gen/Kernels.lean`, regenerated from operations.py by tools/translate_njit.py on every
  run) — the first translated kernel with a `return` inside a loop (early-exit flag and result slot).

  * `gen_compare_arrays_ok`: every successful run of the model `compareArrays` is a run of the translated kernel with the same result;
  * `gen_compare_arrays_is_lex`: the property statement `C14.compare_arrays_is_lex` for the translated kernel — for EVERY pair of byte
    arrays it returns normally (no subscript out of range or negative) the three-way lexicographic comparison.
-/
namespace Exetera.Props.C14Gen

open Exetera Exetera.Unique Exetera.GenK Exetera.Gen.Kernels

theorem gen_compare_arrays_ok (a b : Bytes) (r : Int) (h : compareArrays a b = .ok r) :
    compare_arrays.run (ints8 a) (ints8 b) = .ok r :=
  compare_arrays_ok a b r h

theorem gen_compare_arrays_is_lex (a b : Bytes) : compare_arrays.run (ints8 a) (ints8 b) = .ok (Spec.lexCmp a b) :=
  compare_arrays_ok a b _ (C14.compare_arrays_is_lex a b)

example : compare_arrays.run [97, 98] [97, 98, 99] = .ok (-1) ∧ compare_arrays.run [97, 99] [97, 98, 99] = .ok 1 ∧
    compare_arrays.run [] [] = .ok 0 := ⟨rfl, rfl, rfl⟩

/-! ### `get_indexed_string_unique` (KT4B) -/

open Exetera.GenK.GU in
/-- transfer: every `.ok` run of the model `getIndexedStringUnique` is a run of the TRANSLATED `get_indexed_string_unique` — called
    as `unique_for_indexed_string` calls it, with an empty `unique_result` and empty / absent (`None`) companion lists — that
    leaves the same four lists (bytes as ints, positions as ints) -/
theorem gen_unique_ok (indices : List Nat) (values : Bytes) (ri rv rc : Bool) (o : UOut)
    (h : getIndexedStringUnique indices values ri rv rc = .ok o) :
    get_indexed_string_unique.run (natsI indices) (ints8 values) [] (optNil ri) (optNil rv) (optNil rc)
      = .ok (o.result.map ints8, o.index.map natsI, o.inverse.map natsI, o.counts.map natsI) :=
  get_indexed_string_unique_ok indices values ri rv rc o h

open Exetera.GenK.GU in
/-- the property-level statement (`C14.unique_kernel_discovery_order`) for the translated kernel itself: on the stored form of ANY
    column and every combination of the three flags it returns normally (no subscript out of range or negative) the distinct
    values in discovery order, their first rows, the row → discovery position map and the counts -/
theorem gen_unique_discovery_order (col : List Bytes) (ri rv rc : Bool) :
    get_indexed_string_unique.run (natsI (encode col).1) (ints8 (encode col).2) [] (optNil ri) (optNil rv) (optNil rc)
      = .ok ((discOut ri rv rc col).result.map ints8, (discOut ri rv rc col).index.map natsI,
          (discOut ri rv rc col).inverse.map natsI, (discOut ri rv rc col).counts.map natsI) :=
  get_indexed_string_unique_ok _ _ ri rv rc _ (C14.unique_kernel_discovery_order col ri rv rc)

example : get_indexed_string_unique.run [0, 1, 2, 3, 4] [98, 99, 97, 98] [] (some []) (some []) (some [])
    = .ok ([[98], [99], [97]], some [0, 1, 2], some [0, 1, 2, 0], some [2, 1, 1]) := by rfl
example : get_indexed_string_unique.run [0, 1, 2, 3, 4] [98, 99, 97, 98] [] none (some []) none
    = .ok ([[98], [99], [97]], none, some [0, 1, 2, 0], none) := by rfl
example : GU.natsI (encode [[98], [99], [97], [98]]).1 = [0, 1, 2, 3, 4] ∧ ints8 (encode [[98], [99], [97], [98]]).2 = [98, 99, 97, 98] := by
  decide

end Exetera.Props.C14Gen
