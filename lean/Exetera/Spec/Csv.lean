import Exetera.Gen.CsvConstants
/-!
  Specification of C05: the text of a well-formed CSV file and the records it denotes.

  A file is a list of rows of cells; a cell is written either quoted (RFC 4180: enclosed in double quotes, embedded double
  quotes doubled; may then contain separators, quotes, line breaks, anything) or bare (then it contains none of the three).
  `render` is the file's text; `values` is what an import must produce: the text of every cell, except that blanks at the
  front of a *bare* cell (they directly follow a separator or a line break) are skipped by the reader.
  The four special bytes are those the reader itself uses (`Gen/CsvConstants.lean`, regenerated from the source).
-/
namespace Exetera.Csv.Spec

abbrev Bytes := List Nat
abbrev QUOTE : Nat := Gen.Csv.ESCAPE_VALUE
abbrev SEP : Nat := Gen.Csv.SEPARATOR_VALUE
abbrev NL : Nat := Gen.Csv.NEWLINE_VALUE
abbrev WS : Nat := Gen.Csv.WHITE_SPACE_VALUE

structure Cell where
  quoted : Bool
  text : Bytes
  deriving Repr, DecidableEq, Inhabited

/-- a bare cell contains no quote, separator or line break (a quoted cell may contain anything) -/
def Cell.WF (c : Cell) : Prop :=
  c.quoted = true ∨ ∀ b ∈ c.text, b ≠ QUOTE ∧ b ≠ SEP ∧ b ≠ NL

/-- double every quote -/
def escape : Bytes → Bytes
  | [] => []
  | b :: bs => if b = QUOTE then QUOTE :: QUOTE :: escape bs else b :: escape bs

def renderCell (c : Cell) : Bytes :=
  if c.quoted then QUOTE :: (escape c.text ++ [QUOTE]) else c.text

/-- the cells of a row, each followed by its terminator: a separator, or the line break after the last one -/
def renderCells : List Cell → Bytes
  | [] => []
  | [c] => renderCell c ++ [NL]
  | c :: d :: cs => renderCell c ++ SEP :: renderCells (d :: cs)

/-- the text of a list of rows (every row non-empty), every row ended by a line break -/
def render : List (List Cell) → Bytes
  | [] => []
  | r :: rs => renderCells r ++ render rs

/-- the reader skips the blanks that directly follow a separator or a line break -/
def stripLead (bs : Bytes) : Bytes := bs.dropWhile (fun b => b == WS)

/-- what the import must store for a cell -/
def Cell.value (c : Cell) : Bytes := if c.quoted then c.text else stripLead c.text

def values (rows : List (List Cell)) : List (List Bytes) := rows.map (fun r => r.map Cell.value)

/-- a table: every row has `ncols ≥ 1` well-formed cells -/
def Table (ncols : Nat) (rows : List (List Cell)) : Prop :=
  0 < ncols ∧ ∀ r ∈ rows, r.length = ncols ∧ ∀ c ∈ r, c.WF

/-- column `c` of a list of records -/
def column (recs : List (List Bytes)) (c : Nat) : List Bytes := recs.filterMap (fun r => r[c]?)

/-- an indexed string field holding the given entries: offsets `[0, |e₀|, |e₀|+|e₁|, …]` and the concatenated bytes -/
def offsetsFrom (base : Nat) : List Bytes → List Nat
  | [] => [base]
  | e :: es => base :: offsetsFrom (base + e.length) es

def indexOf (entries : List Bytes) : List Nat := offsetsFrom 0 entries
def bytesOf (entries : List Bytes) : Bytes := entries.flatten

/-- the text of the file as it may be stored: with or without the line break after the last record -/
def FileText (rows : List (List Cell)) (file : Bytes) : Prop :=
  file = render rows ∨ file ++ [NL] = render rows

end Exetera.Csv.Spec
