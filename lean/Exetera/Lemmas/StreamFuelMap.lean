import Exetera.Model.StreamFuel
import Exetera.Lemmas.WhileFuel
import Exetera.Lemmas.MapValidStream
/-! C12, `ordered_map_valid_stream`: progress of one driver iteration and the `⌈n/cs⌉` iteration bound. -/
namespace Exetera.MapValid
open Exetera

/-- what holds of the chunk bounds at the head of every iteration of the map-chunk loop -/
def NextInv (n cs : Nat) (lo hi : Nat) : Prop := hi = min (lo + cs) n

/-- a successful iteration of the map-chunk loop moves to the next chunk and appends a prefix of the buffer -/
theorem chunkBody_next {α} {src : List α} {m : List Int} {inv : Int} {cs : Nat} {empty : α} {s s' : St α}
    (h : chunkBody src m inv cs empty s = .ok s') :
    s'.lo = s.hi ∧ s'.hi = min (s.hi + cs) m.length ∧ ∃ buf, s'.out = s.out ++ List.take (s.hi - s.lo) buf := by
  unfold chunkBody at h
  simp only [] at h
  split at h
  · cases h
  · split at h
    · cases h
    · rename_i buf _
      simp only [nextChunk_eq, Except.ok.injEq] at h
      subst h
      exact ⟨rfl, rfl, buf, rfl⟩

/-- the state of a finished run -/
theorem stream_run_state {α} {src : List α} {m : List Int} {inv : Int} {cs : Nat} {empty : α} {fuel : Nat} {out : List α}
    (h : orderedMapValidStreamF fuel src m inv cs empty = .ok out) :
    ∃ s, whileE (fun s : St α => decide (s.lo < m.length)) (chunkBody src m inv cs empty) fuel
      ⟨(Join.nextChunk 0 m.length cs).1, (Join.nextChunk 0 m.length cs).2, List.replicate cs empty, []⟩ = .ok s ∧
      s.out = out := by
  unfold orderedMapValidStreamF at h
  simp only [] at h
  split at h
  · rename_i s hs
    simp only [Except.ok.injEq] at h
    exact ⟨s, hs, h⟩
  · cases h

/-- the driver loop needs at most `⌈|map| / cs⌉` iterations: any fuel with `|map| ≤ fuel · cs` gives the result of the model -/
theorem stream_fuel {α} (src : List α) (m : List Int) (inv : Int) (cs : Nat) (empty : α) (hcs : 1 ≤ cs) (out : List α)
    (h : orderedMapValidStream src m inv cs empty = .ok out) (fuel : Nat) (hfuel : m.length ≤ fuel * cs) :
    orderedMapValidStreamF fuel src m inv cs empty = .ok out := by
  rw [orderedMapValidStream_eq_F] at h
  obtain ⟨s, hrun, hout⟩ := stream_run_state h
  have key := whileE_tighten_scaled (fun s : St α => decide (s.lo < m.length)) (chunkBody src m inv cs empty)
    (fun s => NextInv m.length cs s.lo s.hi) (fun s => m.length - s.lo) cs
    (by intro s _ hg; simp only [decide_eq_true_eq] at hg; omega)
    (by
      intro s s' hI hg hb
      obtain ⟨h1, h2, _⟩ := chunkBody_next hb
      simp only [decide_eq_true_eq] at hg
      unfold NextInv at hI ⊢
      refine ⟨by rw [h1, h2], ?_⟩
      by_cases hc : s.lo + cs ≤ m.length
      · left; rw [h1, hI]; omega
      · right; simp only [decide_eq_false_iff_not]; rw [h1, hI]; omega)
    m.length _ s (by simp [NextInv, nextChunk_eq]) hrun fuel (by simpa [nextChunk_eq] using hfuel)
  unfold orderedMapValidStreamF
  simp only []
  rw [key]
  simp only [hout]

end Exetera.MapValid
