import Exetera.Gen.Kernels
import Exetera.Model.MapValid
import Exetera.Lemmas.GenKernels
/-!
  The TRANSLATED `next_map_subchunk` (two `while` loops whose guards subscript behind a short-circuiting `and`; the second with
  a `break` two blocks deep) computes exactly the hand-written model `MapValid.nextMapSubchunk`, for every map, start position,
  marker and chunk size, and every fuel ≥ len(map_) − sm.  It never fails: every subscript is behind `sm < len(map_)`.
-/
namespace Exetera.GenK

open Exetera Exetera.PyRt Exetera.Gen.Kernels
open Exetera.MapValid (scanWhile scanAsc nextMapSubchunk)

namespace Sub

abbrev St := next_map_subchunk.St

theorem getE_some' {α} (xs : List α) (i : Nat) (site : String) {x : α} (h : xs[i]? = some x) : getE xs i site = .ok x := by
  simp [getE, h]

/-- first loop: `while sm < len(map_) and map_[sm] == invalid: sm += 1` -/
theorem loop1 (m : List Int) (inv cs v0 v1 : Int) (b : Bool) :
    ∀ (n fuel j : Nat), n = m.length - j → n ≤ fuel →
      whileG next_map_subchunk.guardE_L1 next_map_subchunk.body_L1 fuel (⟨m, (j : Int), inv, cs, v0, v1, b⟩ : St)
        = .ok ⟨m, ((scanWhile (fun x => x == inv) (m.drop j) j : Nat) : Int), inv, cs, v0, v1, b⟩ := by
  intro n
  induction n with
  | zero =>
    intro fuel j hn _
    have hj : m.length ≤ j := by omega
    have hg : next_map_subchunk.guardE_L1 (⟨m, (j : Int), inv, cs, v0, v1, b⟩ : St) = .ok false := by
      have : decide ((j : Int) < pyLen m) = false := by simp [pyLen]; omega
      simp only [next_map_subchunk.guardE_L1, this, Bool.false_eq_true, if_false]
    rw [List.drop_eq_nil_of_le hj]
    cases fuel <;> simp [whileG, hg, scanWhile]
  | succ n ih =>
    intro fuel j hn hf
    have hj : j < m.length := by omega
    obtain ⟨f, rfl⟩ : ∃ f, fuel = f + 1 := ⟨fuel - 1, by omega⟩
    rw [List.drop_eq_getElem_cons hj]
    have hlt : decide ((j : Int) < pyLen m) = true := by simp [pyLen]; omega
    have hget : getE m j "p0[p1]" = .ok m[j] := getE_of_lt _ hj
    by_cases hx : m[j] = inv
    · have hg : next_map_subchunk.guardE_L1 (⟨m, (j : Int), inv, cs, v0, v1, b⟩ : St) = .ok true := by
        simp only [next_map_subchunk.guardE_L1, hlt, if_true, idxE_nat, hget, bindE_ok, hx, beq_self_eq_true]
      have hc : ((j : Int) + 1) = ((j + 1 : Nat) : Int) := by omega
      have hb : next_map_subchunk.body_L1 (⟨m, (j : Int), inv, cs, v0, v1, b⟩ : St) = .ok ⟨m, ((j + 1 : Nat) : Int), inv, cs, v0, v1, b⟩ := by
        simp only [next_map_subchunk.body_L1, hc]
      simp only [whileG, hg, if_true, hb, scanWhile, hx, beq_self_eq_true]
      exact ih f (j + 1) (by omega) (by omega)
    · have hg : next_map_subchunk.guardE_L1 (⟨m, (j : Int), inv, cs, v0, v1, b⟩ : St) = .ok false := by
        have : (m[j] == inv) = false := by simp [hx]
        simp only [next_map_subchunk.guardE_L1, hlt, if_true, idxE_nat, hget, bindE_ok, this]
      have : (m[j] == inv) = false := by simp [hx]
      simp only [whileG, hg, Bool.false_eq_true, if_false, scanWhile, this]

/-- once the flag is up the loop is over -/
theorem loop2_brk (s : St) (h : s.brk2 = true) (fuel : Nat) :
    whileG next_map_subchunk.guardE_L2 next_map_subchunk.body_L2 fuel s = .ok s := by
  have : next_map_subchunk.guardE_L2 s = .ok false := by simp [next_map_subchunk.guardE_L2, h]
  cases fuel <;> simp [whileG, this]

/-- second loop: ends where the window `chunksize` is exceeded or a valid entry steps back (`break`) -/
theorem loop2 (m : List Int) (inv : Int) (cs : Nat) (start : Int) :
    ∀ (n fuel j : Nat) (prev : Int), n = m.length - j → n ≤ fuel →
      ∃ s', whileG next_map_subchunk.guardE_L2 next_map_subchunk.body_L2 fuel (⟨m, (j : Int), inv, (cs : Int), start, prev, false⟩ : St)
          = .ok s' ∧ s'.p1 = ((scanAsc inv start cs prev (m.drop j) j : Nat) : Int) := by
  intro n
  induction n with
  | zero =>
    intro fuel j prev hn _
    have hj : m.length ≤ j := by omega
    have hg : next_map_subchunk.guardE_L2 (⟨m, (j : Int), inv, (cs : Int), start, prev, false⟩ : St) = .ok false := by
      have : decide ((j : Int) < pyLen m) = false := by simp [pyLen]; omega
      simp only [next_map_subchunk.guardE_L2, Bool.false_eq_true, if_false, this]
    rw [List.drop_eq_nil_of_le hj]
    refine ⟨⟨m, (j : Int), inv, (cs : Int), start, prev, false⟩, ?_, by simp [scanAsc]⟩
    cases fuel <;> simp [whileG, hg]
  | succ n ih =>
    intro fuel j prev hn hf
    have hj : j < m.length := by omega
    obtain ⟨f, rfl⟩ : ∃ f, fuel = f + 1 := ⟨fuel - 1, by omega⟩
    rw [List.drop_eq_getElem_cons hj]
    have hlt : decide ((j : Int) < pyLen m) = true := by simp [pyLen]; omega
    have hget : ∀ site, getE m j site = .ok m[j] := fun site => getE_of_lt _ hj
    by_cases hw : m[j] - start < (cs : Int)
    · have hg : next_map_subchunk.guardE_L2 (⟨m, (j : Int), inv, (cs : Int), start, prev, false⟩ : St) = .ok true := by
        simp only [next_map_subchunk.guardE_L2, Bool.false_eq_true, if_false, hlt, if_true, idxE_nat, hget, bindE_ok, hw,
          decide_true]
      have hc : ((j : Int) + 1) = ((j + 1 : Nat) : Int) := by omega
      by_cases hx : m[j] = inv
      · -- a marker: prev stays, sm += 1
        have hne : (m[j] != inv) = false := by simp [hx]
        have hb : next_map_subchunk.body_L2 (⟨m, (j : Int), inv, (cs : Int), start, prev, false⟩ : St)
            = .ok ⟨m, ((j + 1 : Nat) : Int), inv, (cs : Int), start, prev, false⟩ := by
          simp only [next_map_subchunk.body_L2, idxE_nat, hget, bindE_ok, hne, Bool.false_eq_true, if_false, hc]
        simp only [whileG, hg, if_true, hb, scanAsc, hw, hne, Bool.false_eq_true, if_false]
        exact ih f (j + 1) prev (by omega) (by omega)
      · have hne : (m[j] != inv) = true := by simp [hx]
        by_cases hp : m[j] < prev
        · -- a valid entry smaller than the previous one: break, sm stays
          have hb : next_map_subchunk.body_L2 (⟨m, (j : Int), inv, (cs : Int), start, prev, false⟩ : St)
              = .ok ⟨m, (j : Int), inv, (cs : Int), start, prev, true⟩ := by
            simp only [next_map_subchunk.body_L2, idxE_nat, hget, bindE_ok, hne, if_true, hp, decide_true]
          simp only [whileG, hg, if_true, hb, scanAsc, hw, hne, hp]
          exact ⟨_, loop2_brk _ rfl f, rfl⟩
        · have hb : next_map_subchunk.body_L2 (⟨m, (j : Int), inv, (cs : Int), start, prev, false⟩ : St)
              = .ok ⟨m, ((j + 1 : Nat) : Int), inv, (cs : Int), start, m[j], false⟩ := by
            simp only [next_map_subchunk.body_L2, idxE_nat, hget, bindE_ok, hne, if_true, hp, decide_false,
              Bool.false_eq_true, if_false, hc]
          simp only [whileG, hg, if_true, hb, scanAsc, hw, hne, hp, if_false]
          exact ih f (j + 1) m[j] (by omega) (by omega)
    · have hg : next_map_subchunk.guardE_L2 (⟨m, (j : Int), inv, (cs : Int), start, prev, false⟩ : St) = .ok false := by
        simp only [next_map_subchunk.guardE_L2, Bool.false_eq_true, if_false, hlt, if_true, idxE_nat, hget, bindE_ok, hw,
          decide_false]
      refine ⟨⟨m, (j : Int), inv, (cs : Int), start, prev, false⟩, ?_, by simp [scanAsc, hw]⟩
      simp only [whileG, hg, Bool.false_eq_true, if_false]

end Sub

theorem scanWhile_ge (p : Int → Bool) : ∀ (xs : List Int) (sm : Nat), sm ≤ scanWhile p xs sm
  | [], sm => Nat.le_refl _
  | x :: xs, sm => by
    simp only [scanWhile]
    split
    · exact Nat.le_trans (Nat.le_succ sm) (scanWhile_ge p xs (sm + 1))
    · exact Nat.le_refl _

theorem next_map_subchunk_eq (m : List Int) (sm : Nat) (inv : Int) (cs : Nat) (fuel : Nat) (hf : m.length - sm ≤ fuel) :
    next_map_subchunk.run m sm inv cs fuel = .ok ((nextMapSubchunk m sm inv cs : Nat) : Int) := by
  unfold next_map_subchunk.run nextMapSubchunk
  have h1 := Sub.loop1 m inv cs (-1) 0 false (m.length - sm) fuel sm rfl hf
  simp only [h1, bindE_ok]
  have hge := scanWhile_ge (fun x => x == inv) (m.drop sm) sm
  generalize scanWhile (fun x => x == inv) (m.drop sm) sm = sm1 at hge ⊢
  cases hm : m[sm1]? with
  | none =>
    have hl : m.length ≤ sm1 := by
      rcases Nat.lt_or_ge sm1 m.length with h | h
      · simp [List.getElem?_eq_getElem h] at hm
      · exact h
    have hlt : decide ((sm1 : Int) < pyLen m) = false := by simp [pyLen]; omega
    simp only [hlt, Bool.false_eq_true, if_false, bindE_ok]
    obtain ⟨s', hw, hp1⟩ := Sub.loop2 m inv cs (-1) (m.length - sm1) fuel sm1 (-1) rfl (by omega)
    simp only [hw, bindE_ok, hp1, List.drop_eq_nil_of_le hl, scanAsc]
  | some start =>
    have hl : sm1 < m.length := by
      rcases Nat.lt_or_ge sm1 m.length with h | h
      · exact h
      · simp [List.getElem?_eq_none h] at hm
    have hlt : decide ((sm1 : Int) < pyLen m) = true := by simp [pyLen]; omega
    simp only [hlt, if_true, idxE_nat, Sub.getE_some' _ _ _ hm, bindE_ok]
    obtain ⟨s', hw, hp1⟩ := Sub.loop2 m inv cs start (m.length - sm1) fuel sm1 start rfl (by omega)
    simp only [hw, bindE_ok, hp1]

end Exetera.GenK
