import Exetera.Model.Concat
import Exetera.Spec.CsvLine
import Exetera.Lemmas.CsvLine
import Exetera.Lemmas.ConcatBatch
/-!
  C16 — span concatenation produces the CSV-joined non-empty entries of each span, whatever the batching.

  All theorems are about `Exetera.Concat.applySpansConcat .repaired` / `Exetera.Concat.kernel` — the definitions the
  driver runs — for every alphabet `α` with decidable equality, every column `entries`, every list of span boundaries
  inside the column (partitions are the special case `0 = b₀ < … < b_k = entries.length`; the theorems do not even
  need monotone boundaries), every `src_chunksize ≥ 1` and every value buffer `dest_chunksize * chunksize_mult` such that
  no span output is longer than half of it.  `= .ok …` carries memory safety (every subscript of the kernel is a
  checked access in the model) and termination (the batch loop is run with fuel `spans.length`).
-/
namespace Exetera.Props.C16

open Exetera Exetera.Concat Exetera.Spec.CsvLine

variable {α : Type} [DecidableEq α]

/-- the column used by the non-vacuity examples: `a`, ``, `b,c`, `d"e`, `é` (bytes) -/
def exEntries : List (List Nat) := [[97], [], [98, 44, 99], [100, 34, 101], [195, 169]]

/-! ### 1. reading a written line back -/

/-- **parse_join_roundtrip.** Reading the CSV line written for `xs` returns `xs` — for every list of entries except the
    single empty string (whose line is the empty line, read as "no fields"; `apply_spans_concat` never writes it because
    it drops empty entries). -/
theorem parse_join_roundtrip (sep delim : α) (hsd : sep ≠ delim) (xs : List (List α)) (hxs : xs ≠ [[]]) :
    parseCsvLine sep delim (joinCsv sep delim xs) = xs := by
  unfold parseCsvLine
  by_cases h : xs = []
  · subst h; simp [joinCsv, joinWith]
  · have hne : joinCsv sep delim xs ≠ [] := by
      intro hnil
      rcases (joinCsv_eq_nil_iff sep delim xs).mp hnil with h1 | h1
      · exact h h1
      · exact hxs h1
    have : (joinCsv sep delim xs).isEmpty = false := by
      cases hj : joinCsv sep delim xs with
      | nil => exact absurd hj hne
      | cons _ _ => rfl
    rw [this]
    exact parseGo_joinWith sep delim hsd xs h

example : parseCsvLine (44 : Nat) 34 (joinCsv 44 34 exEntries) = exEntries ∧ (44 : Nat) ≠ 34 ∧ exEntries ≠ [[]]
    ∧ joinCsv (44 : Nat) 34 exEntries = [97, 44, 44, 34, 98, 44, 99, 34, 44, 34, 100, 34, 34, 101, 34, 44, 195, 169] := by
  decide

/-- every output string of the specification reads back as the non-empty strings of its span -/
theorem parse_spanOut (sep delim : α) (hsd : sep ≠ delim) (entries : List (List α)) (a b : Nat) :
    parseCsvLine sep delim (spanOut sep delim entries a b) = nonEmpty (slice entries a b) := by
  apply parse_join_roundtrip sep delim hsd
  intro h
  have : ([] : List α) ∈ nonEmpty (slice entries a b) := by rw [h]; simp
  simp [nonEmpty] at this

example : parseCsvLine (44 : Nat) 34 (spanOut 44 34 exEntries 1 4) = [[98, 44, 99], [100, 34, 101]] := by decide

/-! ### 2. the kernel -/

/-- **kernel_eq_spec.** `_apply_spans_concat_2`, called on the index/value arrays of a column with `sp_start` inside
    the span list, limits within the buffers (`max_index_i ≤ len(dest_index)`, room for `dest_index[0]` in the first
    batch) and a value buffer that still has room for one span output of length `≤ M` when the value limit has not been
    reached (`max_value_i - 1 + M ≤ len(dest_values)`): it performs no out-of-range access, handles `k ≥ 1` spans and
    returns `sp_start + k` together with exactly the running offsets (shifted by `dest_start_v`) and the bytes of the
    outputs of the spans `sp_start … sp_start + k - 1`. -/
theorem kernel_eq_spec (P : Params α) (entries : List (List α))
    (hidx : P.idx = offsets entries) (hvals : P.vals = entries.flatten) (hbound : ∀ p ∈ P.spans, p ≤ entries.length)
    (M : Nat) (hM : ∀ o ∈ concatSpec P.sep P.delim entries P.spans, o.length ≤ M)
    (hI : P.maxI ≤ P.capI) (hMV : M ≤ P.capV) (hV : P.maxV - 1 + M ≤ P.capV)
    (spStart : Nat) (hs : spStart < P.spans.length - 1) (hci : (if spStart = 0 then 1 else 0) < P.capI) :
    ∃ k, 0 < k ∧ spStart + k ≤ P.spans.length - 1 ∧
      kernel P spStart = .ok (spStart + k,
        ⟨(if spStart = 0 then [P.index0] else []) ++ offsetsFrom P.destStartV
            (((concatSpec P.sep P.delim entries P.spans).drop spStart).take k),
         (((concatSpec P.sep P.delim entries P.spans).drop spStart).take k).flatten⟩) :=
  kernel_spec P entries ⟨hidx, hvals, hbound⟩ M hM hI hMV hV spStart hs hci

/-- a second batch (`sp_start = 1`, `dest_start_v = 1`) that stops on the index budget after two of three spans -/
def exParams : Params Nat :=
  { spans := [0, 1, 2, 4, 5], idx := offsets exEntries, vals := exEntries.flatten, sep := 44, delim := 34,
    capI := 2, capV := 24, maxI := 2, maxV := 12, destStartV := 1 }

example : (∀ p ∈ exParams.spans, p ≤ exEntries.length) ∧
    (∀ o ∈ concatSpec exParams.sep exParams.delim exEntries exParams.spans, o.length ≤ 12) ∧
    exParams.maxI ≤ exParams.capI ∧ exParams.maxV - 1 + 12 ≤ exParams.capV ∧ 1 < exParams.spans.length - 1 ∧
    kernel exParams 1 = .ok (3, ⟨[1, 13], [34, 98, 44, 99, 34, 44, 34, 100, 34, 34, 101, 34]⟩) := by decide

/-! ### 3. the whole operation -/

/-- **concat_eq_spec_room.** The operation equals its specification under the exact room condition of the batch loop:
    every span output has at most `M` bytes, `M ≤ V` and `V/2 - 1 + M ≤ V` for `V = dest_chunksize * chunksize_mult`
    (a batch continues only while fewer than `V/2` bytes are written, so the next span finds at least `V - (V/2 - 1)`
    free bytes; the first span of a batch finds `V`). For every column, every list of span boundaries inside it and
    every `src_chunksize ≥ 1`, `Session.apply_spans_concat` (with the D25 and NC16a repairs) terminates without an
    out-of-range access and leaves in `dest.indices` / `dest.values` exactly the offsets and the bytes of `concatSpec`. -/
theorem concat_eq_spec_room (sep delim : α) (entries : List (List α)) (spans : List Nat) (srcChunk destChunk mult : Nat)
    (hbound : ∀ p ∈ spans, p ≤ entries.length) (hsc : 1 ≤ srcChunk) (M : Nat)
    (hM : ∀ o ∈ concatSpec sep delim entries spans, o.length ≤ M)
    (hMV : M ≤ destChunk * mult) (hV : destChunk * mult / 2 - 1 + M ≤ destChunk * mult) :
    applySpansConcat .repaired sep delim spans (offsets entries) entries.flatten srcChunk destChunk mult
      = .ok ⟨storedIndices (concatSpec sep delim entries spans), (concatSpec sep delim entries spans).flatten⟩ := by
  obtain ⟨st, hrun, hdest⟩ := runBatches_spec sep delim spans entries srcChunk (destChunk * mult) hbound hsc M hM hMV hV
  simp only [applySpansConcat, hrun, hdest]

/-- **concat_eq_spec.** For every column, every list of span boundaries inside it, every `src_chunksize ≥ 1` and every
    `dest_chunksize`, `chunksize_mult` such that no span output exceeds half of `dest_chunksize * chunksize_mult`:
    `Session.apply_spans_concat` (with the D25 and NC16a repairs) terminates without an out-of-range access and leaves
    in `dest.indices` / `dest.values` exactly the offsets and the bytes of `concatSpec` — one CSV line of the non-empty
    entries per span.

    Reading "large enough to hold one span's output" literally (`o.length ≤ dest_chunksize * chunksize_mult`) the
    statement would be

      theorem concat_eq_spec_whole_buffer … (hroom : ∀ o ∈ concatSpec sep delim entries spans, o.length ≤ destChunk * mult) :
          applySpansConcat .repaired … = .ok ⟨storedIndices …, ….flatten⟩

    and that is FALSE for the code as it is (finding NC16b, `Witness.C16.nc16b_span_longer_than_half_buffer`): the
    kernel never checks the room left before writing a span, it only ends a batch once half the buffer is used.
    `concat_eq_spec_room` above is the exact condition under which the loop is safe; this theorem is its instance for
    the half-buffer condition of DESIGN.md. -/
theorem concat_eq_spec (sep delim : α) (entries : List (List α)) (spans : List Nat) (srcChunk destChunk mult : Nat)
    (hbound : ∀ p ∈ spans, p ≤ entries.length) (hsc : 1 ≤ srcChunk)
    (hroom : ∀ o ∈ concatSpec sep delim entries spans, o.length ≤ destChunk * mult / 2) :
    applySpansConcat .repaired sep delim spans (offsets entries) entries.flatten srcChunk destChunk mult
      = .ok ⟨storedIndices (concatSpec sep delim entries spans), (concatSpec sep delim entries spans).flatten⟩ :=
  concat_eq_spec_room sep delim entries spans srcChunk destChunk mult hbound hsc (destChunk * mult / 2) hroom
    (by omega) (by omega)

/-- `concat_eq_spec_room` beyond the half-buffer condition: the longest output has 12 bytes, the buffer 21 (`21/2 = 10`) -/
example : (∀ o ∈ concatSpec (44 : Nat) 34 exEntries [0, 1, 4, 5], o.length ≤ 12) ∧ 12 ≤ 21 * 1 ∧ 21 * 1 / 2 - 1 + 12 ≤ 21 * 1 ∧
    ¬ (∀ o ∈ concatSpec (44 : Nat) 34 exEntries [0, 1, 4, 5], o.length ≤ 21 * 1 / 2) ∧
    applySpansConcat .repaired (44 : Nat) 34 [0, 1, 4, 5] (offsets exEntries) exEntries.flatten 2 21 1
      = .ok ⟨[0, 1, 13, 15], [97, 34, 98, 44, 99, 34, 44, 34, 100, 34, 34, 101, 34, 195, 169]⟩ := by decide

/-- three batches (`src_chunksize = 1`), tight value buffer (the longest output has 12 bytes, the buffer 24) -/
example : (∀ p ∈ [0, 1, 4, 5], p ≤ exEntries.length) ∧
    (∀ o ∈ concatSpec (44 : Nat) 34 exEntries [0, 1, 4, 5], o.length ≤ 6 * 4 / 2) ∧
    applySpansConcat .repaired (44 : Nat) 34 [0, 1, 4, 5] (offsets exEntries) exEntries.flatten 1 6 4
      = .ok ⟨[0, 1, 13, 15], [97, 34, 98, 44, 99, 34, 44, 34, 100, 34, 34, 101, 34, 195, 169]⟩ := by decide

/-- the strings read from the stored (indices, values) pair are the span outputs (at least one span) -/
theorem concat_strings (sep delim : α) (entries : List (List α)) (spans : List Nat) (srcChunk destChunk mult : Nat)
    (hbound : ∀ p ∈ spans, p ≤ entries.length) (hsc : 1 ≤ srcChunk)
    (hroom : ∀ o ∈ concatSpec sep delim entries spans, o.length ≤ destChunk * mult / 2) (hsp : 2 ≤ spans.length) :
    ∃ d, applySpansConcat .repaired sep delim spans (offsets entries) entries.flatten srcChunk destChunk mult = .ok d ∧
      decode d.indices d.values = concatSpec sep delim entries spans := by
  refine ⟨_, concat_eq_spec sep delim entries spans srcChunk destChunk mult hbound hsc hroom, ?_⟩
  have hlen := concatSpec_length sep delim entries spans
  have : (concatSpec sep delim entries spans).isEmpty = false := by
    cases h : concatSpec sep delim entries spans with
    | nil => rw [h] at hlen; simp at hlen; omega
    | cons _ _ => rfl
  simp only [storedIndices, this]
  exact decode_offsets _

example : decode [0, 1, 13, 15] [97, 34, 98, 44, 99, 34, 44, 34, 100, 34, 34, 101, 34, 195, 169]
    = concatSpec (44 : Nat) 34 exEntries [0, 1, 4, 5] := by decide

/-- every stored string, read as a CSV line, gives back the non-empty strings of its span -/
theorem stored_entries_parse (sep delim : α) (hsd : sep ≠ delim) (entries : List (List α)) (spans : List Nat) :
    (concatSpec sep delim entries spans).map (parseCsvLine sep delim)
      = (spanPairs spans).map (fun p => nonEmpty (slice entries p.1 p.2)) := by
  simp only [concatSpec, List.map_map]
  apply List.map_congr_left
  intro p _
  exact parse_spanOut sep delim hsd entries p.1 p.2

example : (concatSpec (44 : Nat) 34 exEntries [0, 1, 4, 5]).map (parseCsvLine 44 34)
    = [[[97]], [[98, 44, 99], [100, 34, 101]], [[195, 169]]] := by decide

/-- **batching_unobservable.** Two admitted batch settings give the same stored offsets and bytes. -/
theorem batching_unobservable (sep delim : α) (entries : List (List α)) (spans : List Nat)
    (sc₁ dc₁ m₁ sc₂ dc₂ m₂ : Nat) (hbound : ∀ p ∈ spans, p ≤ entries.length) (h₁ : 1 ≤ sc₁) (h₂ : 1 ≤ sc₂)
    (hr₁ : ∀ o ∈ concatSpec sep delim entries spans, o.length ≤ dc₁ * m₁ / 2)
    (hr₂ : ∀ o ∈ concatSpec sep delim entries spans, o.length ≤ dc₂ * m₂ / 2) :
    applySpansConcat .repaired sep delim spans (offsets entries) entries.flatten sc₁ dc₁ m₁
      = applySpansConcat .repaired sep delim spans (offsets entries) entries.flatten sc₂ dc₂ m₂ := by
  rw [concat_eq_spec sep delim entries spans sc₁ dc₁ m₁ hbound h₁ hr₁,
      concat_eq_spec sep delim entries spans sc₂ dc₂ m₂ hbound h₂ hr₂]

/-- one batch (`src_chunksize = 50`, large buffer) and three batches (`src_chunksize = 1`, tight buffer) -/
example : applySpansConcat .repaired (44 : Nat) 34 [0, 1, 4, 5] (offsets exEntries) exEntries.flatten 50 64 16
    = applySpansConcat .repaired (44 : Nat) 34 [0, 1, 4, 5] (offsets exEntries) exEntries.flatten 1 6 4 ∧
    (∀ o ∈ concatSpec (44 : Nat) 34 exEntries [0, 1, 4, 5], o.length ≤ 64 * 16 / 2 ∧ o.length ≤ 6 * 4 / 2) := by decide

/-- the batch loop makes at most one kernel call per span (termination with an explicit bound) -/
theorem concat_terminates (sep delim : α) (entries : List (List α)) (spans : List Nat) (srcChunk valueCap : Nat)
    (hbound : ∀ p ∈ spans, p ≤ entries.length) (hsc : 1 ≤ srcChunk)
    (hroom : ∀ o ∈ concatSpec sep delim entries spans, o.length ≤ valueCap / 2) :
    ∃ st, runBatches .repaired sep delim spans (offsets entries) entries.flatten srcChunk valueCap = .ok st := by
  obtain ⟨st, hrun, _⟩ := runBatches_spec sep delim spans entries srcChunk valueCap hbound hsc (valueCap / 2) hroom
    (by omega) (by omega)
  exact ⟨st, hrun⟩

example : (runBatches .repaired (44 : Nat) 34 [0, 1, 4, 5] (offsets exEntries) exEntries.flatten 1 24).map (·.calls)
    = .ok 3 := by decide

end Exetera.Props.C16
