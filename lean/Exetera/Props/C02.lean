import Exetera.Lemmas.Merge
import Exetera.Lemmas.MergeFrame
import Exetera.Lemmas.MergeWhole
import Exetera.Props.C03
/-!
# C02 — DataFrame.merge returns the relational join; hints change speed, never content

The theorems are about `Exetera.Merge.*` (`Model/Merge.lean`), the model the correspondence driver executes
(`Driver/C02.lean`), whose `_ordered_merge` part INTERPRETS `Gen/MergeDispatch.lean` — the dispatch table, renames and
column-mapping call sites regenerated from the source on every run — and about `Exetera.Spec.relJoin` / `selectCells`.
`Sorted` is `List.Pairwise (· ≤ ·)`, a truthful unique hint on a sorted key column is `List.Pairwise (· < ·)`.

What is proved here, for all inputs:
  * `dispatch_table`, `call_sites`, `suffix_rule` — what the generated table means (a swapped callee, a dropped `invalid`,
    a changed rename or suffix rule in the source changes `Gen/MergeDispatch.lean` and these stop building);
  * `ordered_maps_correct` — for every mode of the ordered path and every truthful unique-hint combination the map fields
    `_left_map` / `_right_map` are exactly the row numbers of the relational join, for every chunk size (C03 + dispatch);
  * `ordered_column_correct`, `unordered_column_correct` — every destination column produced from such a map is the selected
    source rows, empty value where the side is unmatched — also for the non-monotone maps of joins with duplicate keys
    on both sides (C04 as generalised for NC02a), every chunk size;
  * `hints_irrelevant_maps` — the selections behind the maps do not depend on the unique hints.
`merge_correct_partial` / `merge_ordered_columns_correct` put these together per destination column of the ordered path;
`merge_frame_correct_partial`, `hints_irrelevant_partial`, `never_raises_on_truthful_hints_partial` are the statements over the
whole-frame model function `merge` (front end, both paths, destination frame, all four modes); since fix NC02c (the streamed
mapper sizes its value buffer for the longest entry) they are the full statements, also registered as `merge_frame_correct`,
`hints_irrelevant`, `never_raises_on_truthful_hints`. Every hypothesis is listed at the end of this file.
-/
namespace Exetera.Props.C02

open Exetera Exetera.Merge Exetera.Spec Exetera.Join

/-! ## the generated dispatch table -/

/-- **What `_ordered_merge` dispatches to**, read from the regenerated table: (how, left unique, right unique) ↦ streamed
    generator, which frame's key is its `left` argument, whether `invalid` is passed, and which output `_left_map` /
    `_right_map` hold after the renames (`none`: the field does not exist and the side is copied unchanged). -/
theorem dispatch_table :
    plan "left" false false = .ok ⟨.left, true, true, some true, some false⟩ ∧
    plan "left" true false = .ok ⟨.leftLU, true, true, some true, some false⟩ ∧
    plan "left" false true = .ok ⟨.leftRU, true, true, none, some false⟩ ∧
    plan "left" true true = .ok ⟨.leftBU, true, true, none, some false⟩ ∧
    plan "right" false false = .ok ⟨.left, false, true, some false, some true⟩ ∧
    plan "right" true false = .ok ⟨.leftRU, false, true, some false, none⟩ ∧
    plan "right" false true = .ok ⟨.leftLU, false, true, some false, some true⟩ ∧
    plan "right" true true = .ok ⟨.leftBU, false, true, some false, none⟩ ∧
    plan "inner" false false = .ok ⟨.inner, true, false, some true, some false⟩ ∧
    plan "inner" true false = .ok ⟨.innerLU, true, true, some true, some false⟩ ∧
    plan "inner" false true = .ok ⟨.innerRU, true, true, some true, some false⟩ ∧
    plan "inner" true true = .ok ⟨.innerBU, true, true, some true, some false⟩ :=
  ⟨rfl, rfl, rfl, rfl, rfl, rfl, rfl, rfl, rfl, rfl, rfl, rfl⟩

/-- **The column-mapping call sites**: a side without map is copied, every other column goes through the stream of its
    type WITH the `invalid` marker of the join (not the default `-1`). -/
theorem call_sites :
    mapPlan "left" "nomap" = .ok .copy ∧ mapPlan "left" "flat" = .ok (.stream true) ∧
    mapPlan "left" "indexed" = .ok (.istream true) ∧
    mapPlan "right" "nomap" = .ok .copy ∧ mapPlan "right" "flat" = .ok (.stream true) ∧
    mapPlan "right" "indexed" = .ok (.istream true) :=
  ⟨rfl, rfl, rfl, rfl, rfl, rfl⟩

/-- **Suffix rule** (both paths): a column keeps its name unless the other side maps a column of the same name; then the
    left one gets `left_suffix`, the right one `right_suffix`. The ordered path reads the rule from the generated table,
    the unordered path has it in `unorderedMerge` (`suffixed`). -/
theorem suffix_rule (k : String) (ltm rtm : List String) (ls rs : String) :
    destName "left" k ltm rtm ls rs = .ok (if rtm.contains k then k ++ ls else k) ∧
    destName "right" k ltm rtm ls rs = .ok (if ltm.contains k then k ++ rs else k) :=
  ⟨rfl, rfl⟩

example : destName "left" "k" ["k", "a"] ["k", "b"] "_l" "_r" = .ok "k_l" ∧
    destName "right" "b" ["k", "a"] ["k", "b"] "_l" "_r" = .ok "b" := ⟨rfl, rfl⟩

/-- the sentinel: 32-bit marker iff a unique hint is given and both frames are shorter than `INT64_INDEX_LENGTH` -/
theorem sentinel_choice (lu ru : Bool) (ll rl : Nat) :
    sentinel lu ru ll rl = .ok (if lu || ru then
      (if (ll : Int) < 2147483647 && (rl : Int) < 2147483647 then 2147483647 else 4611686018427387904)
      else 4611686018427387904) := by
  cases lu <;> cases ru <;>
    simp [sentinel, Exetera.Gen.MergeDispatch.extracted, constOf, Exetera.Gen.MergeDispatch.int32Below,
      Exetera.Gen.MergeDispatch.sentinelUnique32, Exetera.Gen.MergeDispatch.sentinelUnique64,
      Exetera.Gen.MergeDispatch.sentinelGeneral, Exetera.Gen.INVALID_INDEX_32, Exetera.Gen.INVALID_INDEX_64,
      Exetera.Gen.INT64_INDEX_LENGTH]

/-! ## the map fields are the relational join -/

/-- which rows of the LEFT frame the result rows take -/
def leftSel (how : String) (lk rk : List Int) : List (Option Nat) := (relJoin how lk rk).map (·.1)
/-- which rows of the RIGHT frame the result rows take -/
def rightSel (how : String) (lk rk : List Int) : List (Option Nat) := (relJoin how lk rk).map (·.2)

/-- the maps `_ordered_merge` leaves in the destination, given a plan and the generator's output -/
def leftMapOf (p : Plan) (o : Join.Out) : Option (List Int) := p.leftMap.map (fun isL => if isL then o.lout else o.rout)
def rightMapOf (p : Plan) (o : Join.Out) : Option (List Int) := p.rightMap.map (fun isL => if isL then o.lout else o.rout)

theorem encL_eq (inv : Int) (rows : List (Nat × Option Nat)) :
    encL rows = encSel inv (rows.map (fun p => some p.1)) := by
  simp [encL, encSel, encCell, List.map_map, Function.comp_def]

theorem encR_eq (inv : Int) (rows : List (Nat × Option Nat)) :
    encR inv rows = encSel inv (rows.map (fun p => p.2)) := by
  simp [encR, encSel, List.map_map, Function.comp_def]

theorem innerL_eq (inv : Int) (rows : List (Nat × Nat)) :
    rows.map (fun p => (p.1 : Int)) = encSel inv (rows.map (fun p => some p.1)) := by
  simp [encSel, encCell, List.map_map, Function.comp_def]

theorem innerR_eq (inv : Int) (rows : List (Nat × Nat)) :
    rows.map (fun p => (p.2 : Int)) = encSel inv (rows.map (fun p => some p.2)) := by
  simp [encSel, encCell, List.map_map, Function.comp_def]

theorem leftSel_left (lk rk : List Int) : leftSel "left" lk rk = (leftJoin lk rk).map (fun p => some p.1) := by
  simp [leftSel, relJoin, leftRel, List.map_map, Function.comp_def]
theorem rightSel_left (lk rk : List Int) : rightSel "left" lk rk = (leftJoin lk rk).map (fun p => p.2) := by
  simp [rightSel, relJoin, leftRel, List.map_map, Function.comp_def]
theorem leftSel_right (lk rk : List Int) : leftSel "right" lk rk = (leftJoin rk lk).map (fun p => p.2) := by
  simp [leftSel, relJoin, leftRel, List.map_map, Function.comp_def]
theorem rightSel_right (lk rk : List Int) : rightSel "right" lk rk = (leftJoin rk lk).map (fun p => some p.1) := by
  simp [rightSel, relJoin, leftRel, List.map_map, Function.comp_def]
theorem leftSel_inner (lk rk : List Int) : leftSel "inner" lk rk = (innerJoin lk rk).map (fun p => some p.1) := by
  simp [leftSel, relJoin, List.map_map, Function.comp_def]
theorem rightSel_inner (lk rk : List Int) : rightSel "inner" lk rk = (innerJoin lk rk).map (fun p => some p.2) := by
  simp [rightSel, relJoin, List.map_map, Function.comp_def]

/-- a truthful uniqueness hint on an ordered key column -/
def Truthful (u : Bool) (ks : List Int) : Prop := u = true → ks.Pairwise (· < ·)

/-- **The map fields of the ordered path are the relational join**, for `how ∈ {left, right, inner}`, every truthful
    combination of the unique hints, every chunk size ≥ 1, every marker, all ordered key columns (duplicates on either or
    both sides, unmatched rows anywhere): the generator selected by the regenerated dispatch table terminates without an
    out-of-bounds access, and each map field that `_ordered_merge` leaves in the destination is the marker-encoding of the
    rows the relational join takes from that side. A side has no map field only when it is copied unchanged. -/
theorem ordered_maps_correct (how : String) (hhow : how = "left" ∨ how = "right" ∨ how = "inner") (lu ru : Bool)
    (lk rk : List Int) (hl : Sorted lk) (hr : Sorted rk) (hlu : Truthful lu lk) (hru : Truthful ru rk)
    (cs : Nat) (hcs : 0 < cs) (inv : Int) (fuel : Nat)
    (hfuel : lk.length + rk.length + 2 * (relJoin how lk rk).length + 1 ≤ fuel) :
    ∃ p o, plan how lu ru = .ok p ∧
      Join.streamed p.variant fuel cs inv (if p.aLeft then lk else rk) (if p.aLeft then rk else lk) = .ok o ∧
      (∀ m, leftMapOf p o = some m → m = encSel inv (leftSel how lk rk)) ∧
      (∀ m, rightMapOf p o = some m → m = encSel inv (rightSel how lk rk)) := by
  have hlenL : (relJoin "left" lk rk).length = (leftJoin lk rk).length := by simp [relJoin, leftRel]
  have hlenR : (relJoin "right" lk rk).length = (leftJoin rk lk).length := by simp [relJoin, leftRel]
  have hlenI : (relJoin "inner" lk rk).length = (innerJoin lk rk).length := by simp [relJoin]
  obtain ⟨d1, d2, d3, d4, d5, d6, d7, d8, d9, d10, d11, d12⟩ := dispatch_table
  rcases hhow with h | h | h <;> subst h
  · -- how = 'left': a = left
    rw [hlenL] at hfuel
    cases lu <;> cases ru
    · obtain ⟨c, hc⟩ := C03.left_streamed_eq (cs := cs) inv hcs hl hr fuel hfuel
      refine ⟨_, _, d1, by simpa using hc, ?_, ?_⟩
      · intro m hm; simp [leftMapOf, encodeLeft] at hm; rw [← hm, leftSel_left, encL_eq inv]
      · intro m hm; simp [rightMapOf, encodeLeft] at hm; rw [← hm, rightSel_left, encR_eq]
    · obtain ⟨c, hc⟩ := C03.left_right_unique_streamed_eq (cs := cs) inv hcs hl (hru rfl) fuel (by omega)
      refine ⟨_, _, d3, by simpa using hc, ?_, ?_⟩
      · intro m hm; simp [leftMapOf] at hm
      · intro m hm; simp [rightMapOf, encodeLeft] at hm; rw [← hm, rightSel_left, encR_eq]
    · obtain ⟨c, hc⟩ := C03.left_left_unique_streamed_eq (cs := cs) inv hcs (hlu rfl) hr fuel (by omega)
      refine ⟨_, _, d2, by simpa using hc, ?_, ?_⟩
      · intro m hm; simp [leftMapOf, encodeLeft] at hm; rw [← hm, leftSel_left, encL_eq inv]
      · intro m hm; simp [rightMapOf, encodeLeft] at hm; rw [← hm, rightSel_left, encR_eq]
    · obtain ⟨c, hc⟩ := C03.left_both_unique_streamed_eq (cs := cs) inv hcs (hlu rfl) (hru rfl) fuel (by omega)
      refine ⟨_, _, d4, by simpa using hc, ?_, ?_⟩
      · intro m hm; simp [leftMapOf] at hm
      · intro m hm; simp [rightMapOf, encodeLeft] at hm; rw [← hm, rightSel_left, encR_eq]
  · -- how = 'right': a = right, the generator's l_result is `_right_map`, its r_result `_left_map`
    rw [hlenR] at hfuel
    cases lu <;> cases ru
    · obtain ⟨c, hc⟩ := C03.left_streamed_eq (cs := cs) inv hcs hr hl fuel (by omega)
      refine ⟨_, _, d5, by simpa using hc, ?_, ?_⟩
      · intro m hm; simp [leftMapOf, encodeLeft] at hm; rw [← hm, leftSel_right, encR_eq]
      · intro m hm; simp [rightMapOf, encodeLeft] at hm; rw [← hm, rightSel_right, encL_eq inv]
    · obtain ⟨c, hc⟩ := C03.left_left_unique_streamed_eq (cs := cs) inv hcs (hru rfl) hl fuel (by omega)
      refine ⟨_, _, d7, by simpa using hc, ?_, ?_⟩
      · intro m hm; simp [leftMapOf, encodeLeft] at hm; rw [← hm, leftSel_right, encR_eq]
      · intro m hm; simp [rightMapOf, encodeLeft] at hm; rw [← hm, rightSel_right, encL_eq inv]
    · obtain ⟨c, hc⟩ := C03.left_right_unique_streamed_eq (cs := cs) inv hcs hr (hlu rfl) fuel (by omega)
      refine ⟨_, _, d6, by simpa using hc, ?_, ?_⟩
      · intro m hm; simp [leftMapOf, encodeLeft] at hm; rw [← hm, leftSel_right, encR_eq]
      · intro m hm; simp [rightMapOf] at hm
    · obtain ⟨c, hc⟩ := C03.left_both_unique_streamed_eq (cs := cs) inv hcs (hru rfl) (hlu rfl) fuel (by omega)
      refine ⟨_, _, d8, by simpa using hc, ?_, ?_⟩
      · intro m hm; simp [leftMapOf, encodeLeft] at hm; rw [← hm, leftSel_right, encR_eq]
      · intro m hm; simp [rightMapOf] at hm
  · -- how = 'inner'
    rw [hlenI] at hfuel
    cases lu <;> cases ru
    · obtain ⟨c, hc⟩ := C03.inner_streamed_eq (cs := cs) inv hcs hl hr fuel hfuel
      refine ⟨_, _, d9, by simpa using hc, ?_, ?_⟩
      · intro m hm; simp [leftMapOf, encodeInner] at hm; rw [← hm, leftSel_inner, innerL_eq inv]
      · intro m hm; simp [rightMapOf, encodeInner] at hm; rw [← hm, rightSel_inner, innerR_eq inv]
    · obtain ⟨c, hc⟩ := C03.inner_right_unique_streamed_eq (cs := cs) inv hcs hl (hru rfl) fuel (by omega)
      refine ⟨_, _, d11, by simpa using hc, ?_, ?_⟩
      · intro m hm; simp [leftMapOf, encodeInner] at hm; rw [← hm, leftSel_inner, innerL_eq inv]
      · intro m hm; simp [rightMapOf, encodeInner] at hm; rw [← hm, rightSel_inner, innerR_eq inv]
    · obtain ⟨c, hc⟩ := C03.inner_left_unique_streamed_eq (cs := cs) inv hcs (hlu rfl) hr fuel (by omega)
      refine ⟨_, _, d10, by simpa using hc, ?_, ?_⟩
      · intro m hm; simp [leftMapOf, encodeInner] at hm; rw [← hm, leftSel_inner, innerL_eq inv]
      · intro m hm; simp [rightMapOf, encodeInner] at hm; rw [← hm, rightSel_inner, innerR_eq inv]
    · obtain ⟨c, hc⟩ := C03.inner_both_unique_streamed_eq (cs := cs) inv hcs (hlu rfl) (hru rfl) fuel (by omega)
      refine ⟨_, _, d12, by simpa using hc, ?_, ?_⟩
      · intro m hm; simp [leftMapOf, encodeInner] at hm; rw [← hm, leftSel_inner, innerL_eq inv]
      · intro m hm; simp [rightMapOf, encodeInner] at hm; rw [← hm, rightSel_inner, innerR_eq inv]

/-- **Hints are irrelevant to the content of the maps**: whatever truthful unique hints are given, a map field that exists
    encodes the same selection `leftSel` / `rightSel` — the one of the hint-free relational join (`ordered_maps_correct`
    states it for every `(lu, ru)` against the same right-hand side, which does not mention the hints). -/
theorem hints_irrelevant_maps (how : String) (hhow : how = "left" ∨ how = "right" ∨ how = "inner") (lu ru : Bool)
    (lk rk : List Int) (hl : Sorted lk) (hr : Sorted rk) (hlu : Truthful lu lk) (hru : Truthful ru rk)
    (cs cs' : Nat) (hcs : 0 < cs) (hcs' : 0 < cs') (inv : Int) (fuel : Nat)
    (hfuel : lk.length + rk.length + 2 * (relJoin how lk rk).length + 1 ≤ fuel) :
    ∃ p o p0 o0, plan how lu ru = .ok p ∧ plan how false false = .ok p0 ∧
      Join.streamed p.variant fuel cs inv (if p.aLeft then lk else rk) (if p.aLeft then rk else lk) = .ok o ∧
      Join.streamed p0.variant fuel cs' inv (if p0.aLeft then lk else rk) (if p0.aLeft then rk else lk) = .ok o0 ∧
      (∀ m, leftMapOf p o = some m → leftMapOf p0 o0 = some m) ∧
      (∀ m, rightMapOf p o = some m → rightMapOf p0 o0 = some m) := by
  obtain ⟨p, o, h1, h2, h3, h4⟩ := ordered_maps_correct how hhow lu ru lk rk hl hr hlu hru cs hcs inv fuel hfuel
  obtain ⟨p0, o0, g1, g2, g3, g4⟩ := ordered_maps_correct how hhow false false lk rk hl hr (fun h => by cases h)
    (fun h => by cases h) cs' hcs' inv fuel hfuel
  refine ⟨p, o, p0, o0, h1, g1, h2, g2, ?_, ?_⟩
  · intro m hm
    have hboth : ∃ m0, leftMapOf p0 o0 = some m0 := by
      obtain ⟨d1, _, _, _, d5, _, _, _, d9, _⟩ := dispatch_table
      rcases hhow with h | h | h <;> subst h
      · rw [d1] at g1; cases g1; exact ⟨_, rfl⟩
      · rw [d5] at g1; cases g1; exact ⟨_, rfl⟩
      · rw [d9] at g1; cases g1; exact ⟨_, rfl⟩
    obtain ⟨m0, hm0⟩ := hboth
    rw [hm0, g3 m0 hm0, h3 m hm]
  · intro m hm
    have hboth : ∃ m0, rightMapOf p0 o0 = some m0 := by
      obtain ⟨d1, _, _, _, d5, _, _, _, d9, _⟩ := dispatch_table
      rcases hhow with h | h | h <;> subst h
      · rw [d1] at g1; cases g1; exact ⟨_, rfl⟩
      · rw [d5] at g1; cases g1; exact ⟨_, rfl⟩
      · rw [d9] at g1; cases g1; exact ⟨_, rfl⟩
    obtain ⟨m0, hm0⟩ := hboth
    rw [hm0, g4 m0 hm0, h4 m hm]

/-! ## every destination column is the selected source rows -/

/-- **One column of the ordered path.** A source column with `n` rows (indexed strings well formed, entries fitting the
    value buffer `cs * vf`), mapped through a map field that encodes the selection `sel` with marker `inv ≥ n`: the call
    site read from the regenerated table passes `invalid`, the stream terminates without error for every chunk size ≥ 1,
    and the destination column is `selectCol col sel`: row `r` is the source row `sel[r]`, or the empty value where the
    side is unmatched. No ordering of the map is assumed (duplicate keys on both sides give non-monotone maps, NC02a). -/
theorem ordered_column_correct (side : String) (hside : side = "left" ∨ side = "right") (col : Col) (n : Nat)
    (sel : List (Option Nat)) (inv : Int) (cs vf : Nat) (hcs : 1 ≤ cs) (hcol : ColWF col n)
    (hsel : ∀ i, some i ∈ sel → i < n) (hinv : (n : Int) ≤ inv) :
    ∃ out, mapColumn side col (some (encSel inv sel)) inv cs vf = .ok out ∧ selectCol col sel = some out := by
  obtain ⟨_, c2, c3, _, c5, c6⟩ := call_sites
  rcases hside with h | h <;> subst h
  · exact mapColumn_stream_wf "left" col n sel inv cs vf c2 c3 hcs hcol hsel hinv
  · exact mapColumn_stream_wf "right" col n sel inv cs vf c5 c6 hcs hcol hsel hinv

/-- a side without map field is copied unchanged (`chunked_copy`) -/
theorem ordered_column_copied (side : String) (hside : side = "left" ∨ side = "right") (col : Col) (inv : Int)
    (cs vf : Nat) : mapColumn side col none inv cs vf = .ok col := by
  obtain ⟨c1, _, _, c4, _, _⟩ := call_sites
  rcases hside with h | h <;> subst h
  · simp only [mapColumn]; rw [c1]
  · simp only [mapColumn]; rw [c4]

/-- **One column of the unordered path** (`safe_map_values` / `safe_map_indexed_values` with pandas' row numbers and
    `notnull` filters): the destination column is the selected source rows, empty value where pandas reported NaN. -/
theorem unordered_column_correct (col : Col) (n : Nat) (sel : List (Option Nat)) (hcol : ColWF col n)
    (hsel : ∀ i, some i ∈ sel → i < n) :
    ∃ out, safeMapColumn col sel = .ok out ∧ selectCol col sel = some out :=
  safeMapColumn_spec_wf col n sel hcol hsel

/-! ## non-vacuity -/

/-- duplicate keys on both sides, unmatched rows at the start and the end; chunk size 2 -/
example : Sorted [0, 2, 2] ∧ Sorted [2, 2, 2, 5] := by simp [Sorted]
example : relJoin "left" [0, 2, 2] [2, 2, 5] =
    [(some 0, none), (some 1, some 0), (some 1, some 1), (some 2, some 0), (some 2, some 1)] := by decide
example : relJoin "right" [0, 2, 2] [2, 5] = [(some 1, some 0), (some 2, some 0), (none, some 1)] := by decide
example : relJoin "outer" [0, 2] [2, 5] = [(some 0, none), (some 1, some 0), (none, some 1)] := by decide
/-- the right map of that left join is not monotone; the column still comes out right (the NC02a witness) -/
example : mapColumn "right" (.flat (.int 0) [.int 500, .int 501, .int 502])
    (some (encSel 4611686018427387904 (rightSel "left" [2, 2] [2, 2, 2]))) 4611686018427387904 2 8
    = .ok (.flat (.int 0) [.int 500, .int 501, .int 502, .int 500, .int 501, .int 502]) := by rfl
example : ColWF (.indexed [0, 1, 3] [97, 98, 98]) 2 :=
  ⟨rfl, fun ix vs h => by cases h; unfold IndexedOK; decide⟩
example : Truthful true [1, 3, 4] ∧ Truthful false [1, 1] := ⟨fun _ => by decide, fun h => by cases h⟩

/-! ## the ordered path, column by column -/

/-- **`merge_correct`, partial: the ordered path column by column.** For `how ∈ {left, right, inner}`, every truthful
    unique-hint combination, ordered key columns, every chunk size ≥ 1 and a marker not smaller than both frame lengths
    (the sentinels of `sentinel_choice` for frames below 2^31-1 resp. 2^62 rows): the dispatched generator succeeds, and
    EVERY well-formed column of the left (right) frame is turned, without error, into the rows `leftSel` (`rightSel`) of
    the relational join — the same list of result rows for all columns of both sides, so the destination columns have
    equal length and row `r` of the destination is (left row | empty, right row | empty) of the `r`-th relational-join
    row; a side that has no map field is copied unchanged.
    The hypotheses `hselL`/`hselR` are facts about `Spec.leftJoin`/`innerJoin`; they are discharged in
    `merge_ordered_columns_correct`, and the whole frame is `merge_frame_correct_partial` (below). -/
theorem merge_correct_partial (how : String) (hhow : how = "left" ∨ how = "right" ∨ how = "inner") (lu ru : Bool)
    (lk rk : List Int) (hl : Sorted lk) (hr : Sorted rk) (hlu : Truthful lu lk) (hru : Truthful ru rk)
    (cs vf : Nat) (hcs : 1 ≤ cs) (inv : Int) (hinvL : (lk.length : Int) ≤ inv) (hinvR : (rk.length : Int) ≤ inv)
    (fuel : Nat) (hfuel : lk.length + rk.length + 2 * (relJoin how lk rk).length + 1 ≤ fuel)
    (hselL : ∀ i, some i ∈ leftSel how lk rk → i < lk.length)
    (hselR : ∀ j, some j ∈ rightSel how lk rk → j < rk.length) :
    ∃ p o, plan how lu ru = .ok p ∧
      Join.streamed p.variant fuel cs inv (if p.aLeft then lk else rk) (if p.aLeft then rk else lk) = .ok o ∧
      (∀ col, ColWF col lk.length →
        ∃ out, mapColumn "left" col (leftMapOf p o) inv cs vf = .ok out ∧
          ((leftMapOf p o).isSome → selectCol col (leftSel how lk rk) = some out) ∧
          (leftMapOf p o = none → out = col)) ∧
      (∀ col, ColWF col rk.length →
        ∃ out, mapColumn "right" col (rightMapOf p o) inv cs vf = .ok out ∧
          ((rightMapOf p o).isSome → selectCol col (rightSel how lk rk) = some out) ∧
          (rightMapOf p o = none → out = col)) := by
  obtain ⟨p, o, h1, h2, h3, h4⟩ := ordered_maps_correct how hhow lu ru lk rk hl hr hlu hru cs (by omega) inv fuel hfuel
  refine ⟨p, o, h1, h2, ?_, ?_⟩
  · intro col hcol
    cases hm : leftMapOf p o with
    | none => exact ⟨col, ordered_column_copied "left" (Or.inl rfl) col inv cs vf, ⟨fun h => by simp at h, fun _ => rfl⟩⟩
    | some m =>
      rw [h3 m hm]
      obtain ⟨out, g1, g2⟩ := ordered_column_correct "left" (Or.inl rfl) col lk.length (leftSel how lk rk) inv cs vf hcs
        hcol hselL hinvL
      exact ⟨out, g1, ⟨fun _ => g2, fun h => by simp at h⟩⟩
  · intro col hcol
    cases hm : rightMapOf p o with
    | none => exact ⟨col, ordered_column_copied "right" (Or.inr rfl) col inv cs vf, ⟨fun h => by simp at h, fun _ => rfl⟩⟩
    | some m =>
      rw [h4 m hm]
      obtain ⟨out, g1, g2⟩ := ordered_column_correct "right" (Or.inr rfl) col rk.length (rightSel how lk rk) inv cs vf hcs
        hcol hselR hinvR
      exact ⟨out, g1, ⟨fun _ => g2, fun h => by simp at h⟩⟩

/-- non-vacuity of `hselL` / `hselR` on a join with duplicates on both sides and unmatched rows -/
example : (leftSel "left" [0, 2, 2] [2, 2, 5]).all (fun o => match o with | some i => decide (i < 3) | none => true) = true ∧
    (rightSel "left" [0, 2, 2] [2, 2, 5]).all (fun o => match o with | some j => decide (j < 3) | none => true) = true := by
  decide

/-! ## the spec facts behind `hselL` / `hselR`, and the ordered path without them -/

/-- **Row numbers of the relational join are in range** (every mode): a result row never names a left row beyond the
    left frame. -/
theorem leftSel_in_range (how : String) (lk rk : List Int) : ∀ i, some i ∈ leftSel how lk rk → i < lk.length :=
  sel_left_in_range how lk rk

/-- … nor a right row beyond the right frame. -/
theorem rightSel_in_range (how : String) (lk rk : List Int) : ∀ j, some j ∈ rightSel how lk rk → j < rk.length :=
  sel_right_in_range how lk rk

/-- **A side without map field is selected row by row.** `_ordered_merge` leaves a side without `_left_map` /
    `_right_map` (and copies its columns with `chunked_copy`) only when that side drives the join and the OTHER side's
    keys are hinted unique; for a truthful hint the relational join then takes every row of the driving side exactly once,
    in order — so the unchanged copy IS the selected rows. -/
theorem no_map_is_identity (how : String) (hhow : how = "left" ∨ how = "right" ∨ how = "inner") (lu ru : Bool)
    (lk rk : List Int) (hlu : Truthful lu lk) (hru : Truthful ru rk) (p : Plan) (hp : plan how lu ru = .ok p) :
    (p.leftMap = none → leftSel how lk rk = idSel lk.length) ∧
    (p.rightMap = none → rightSel how lk rk = idSel rk.length) := by
  obtain ⟨d1, d2, d3, d4, d5, d6, d7, d8, d9, d10, d11, d12⟩ := dispatch_table
  rcases hhow with h | h | h <;> subst h <;> cases lu <;> cases ru
  · rw [d1] at hp; cases hp; exact ⟨nofun, nofun⟩
  · rw [d3] at hp; cases hp
    exact ⟨fun _ => (by rw [leftSel_left]; exact leftJoin_sel_of_nodup (nodup_of_strict (hru rfl))), nofun⟩
  · rw [d2] at hp; cases hp; exact ⟨nofun, nofun⟩
  · rw [d4] at hp; cases hp
    exact ⟨fun _ => (by rw [leftSel_left]; exact leftJoin_sel_of_nodup (nodup_of_strict (hru rfl))), nofun⟩
  · rw [d5] at hp; cases hp; exact ⟨nofun, nofun⟩
  · rw [d7] at hp; cases hp; exact ⟨nofun, nofun⟩
  · rw [d6] at hp; cases hp
    exact ⟨nofun, fun _ => (by rw [rightSel_right]; exact leftJoin_sel_of_nodup (nodup_of_strict (hlu rfl)))⟩
  · rw [d8] at hp; cases hp
    exact ⟨nofun, fun _ => (by rw [rightSel_right]; exact leftJoin_sel_of_nodup (nodup_of_strict (hlu rfl)))⟩
  · rw [d9] at hp; cases hp; exact ⟨nofun, nofun⟩
  · rw [d11] at hp; cases hp; exact ⟨nofun, nofun⟩
  · rw [d10] at hp; cases hp; exact ⟨nofun, nofun⟩
  · rw [d12] at hp; cases hp; exact ⟨nofun, nofun⟩

/-- left join against unique right keys (`how='left'`, `hint_right_keys_unique`): the left side has no map and is taken row by row -/
example : leftSel "left" [0, 2, 2, 7] [2, 5] = idSel 4 := by decide

/-- **The ordered path, column by column, with no hypothesis about the specification left.** As `merge_correct_partial`,
    but the in-range facts are proved (`leftSel_in_range`, `rightSel_in_range`) and a copied side is shown to be the
    selected rows too (`no_map_is_identity`, `selectCol_id`): for `how ∈ {left, right, inner}`, every truthful unique-hint
    combination, ordered key columns, every chunk size ≥ 1, a marker not below either frame length: the dispatched
    generator succeeds and EVERY well-formed column of the left (right) frame becomes, without error, exactly
    `selectCol col (leftSel how lk rk)` (`rightSel`): row `r` of every destination column is the source row the `r`-th row
    of the relational join names, or the empty value where that side is unmatched. -/
theorem merge_ordered_columns_correct (how : String) (hhow : how = "left" ∨ how = "right" ∨ how = "inner") (lu ru : Bool)
    (lk rk : List Int) (hl : Sorted lk) (hr : Sorted rk) (hlu : Truthful lu lk) (hru : Truthful ru rk)
    (cs vf : Nat) (hcs : 1 ≤ cs) (inv : Int) (hinvL : (lk.length : Int) ≤ inv) (hinvR : (rk.length : Int) ≤ inv)
    (fuel : Nat) (hfuel : lk.length + rk.length + 2 * (relJoin how lk rk).length + 1 ≤ fuel) :
    ∃ p o, plan how lu ru = .ok p ∧
      Join.streamed p.variant fuel cs inv (if p.aLeft then lk else rk) (if p.aLeft then rk else lk) = .ok o ∧
      (∀ m, leftMapOf p o = some m → m = encSel inv (leftSel how lk rk)) ∧
      (∀ m, rightMapOf p o = some m → m = encSel inv (rightSel how lk rk)) ∧
      (∀ col, ColWF col lk.length →
        ∃ out, mapColumn "left" col (leftMapOf p o) inv cs vf = .ok out ∧ selectCol col (leftSel how lk rk) = some out) ∧
      (∀ col, ColWF col rk.length →
        ∃ out, mapColumn "right" col (rightMapOf p o) inv cs vf = .ok out ∧ selectCol col (rightSel how lk rk) = some out) := by
  obtain ⟨p, o, h1, h2, h3, h4⟩ := merge_correct_partial how hhow lu ru lk rk hl hr hlu hru cs vf hcs inv hinvL hinvR fuel
    hfuel (leftSel_in_range how lk rk) (rightSel_in_range how lk rk)
  obtain ⟨p', o', h1', h2', m1, m2⟩ := ordered_maps_correct how hhow lu ru lk rk hl hr hlu hru cs (by omega) inv fuel hfuel
  have hpp : p' = p := by rw [h1] at h1'; cases h1'; rfl
  subst hpp
  have hoo : o' = o := by rw [h2] at h2'; cases h2'; rfl
  subst hoo
  obtain ⟨n1, n2⟩ := no_map_is_identity how hhow lu ru lk rk hlu hru p' h1
  refine ⟨p', o', h1, h2, m1, m2, ?_, ?_⟩
  · intro col hcol
    obtain ⟨out, g1, g2, g3⟩ := h3 col hcol
    refine ⟨out, g1, ?_⟩
    cases hm : leftMapOf p' o' with
    | some m => exact g2 (by simp [hm])
    | none =>
      have hpl : p'.leftMap = none := by
        cases hq : p'.leftMap with
        | none => rfl
        | some b => simp [leftMapOf, hq] at hm
      rw [g3 hm, n1 hpl]
      exact selectCol_id_wf hcol
  · intro col hcol
    obtain ⟨out, g1, g2, g3⟩ := h4 col hcol
    refine ⟨out, g1, ?_⟩
    cases hm : rightMapOf p' o' with
    | some m => exact g2 (by simp [hm])
    | none =>
      have hpl : p'.rightMap = none := by
        cases hq : p'.rightMap with
        | none => rfl
        | some b => simp [rightMapOf, hq] at hm
      rw [g3 hm, n2 hpl]
      exact selectCol_id_wf hcol

/-- **Key order on the ordered path**: for `how ∈ {left, right, inner}` and sorted key columns, every row of the relational
    join — the row list the ordered path produces, in that order (`merge_ordered_columns_correct`) — has a key
    (`Spec.rowKey`: the key of whichever side is present), and these keys are non-decreasing from row to row. -/
theorem ordered_path_key_order (how : String) (hhow : how = "left" ∨ how = "right" ∨ how = "inner") (lk rk : List Int)
    (hl : Sorted lk) (hr : Sorted rk) :
    ∃ ks, (relJoin how lk rk).map (rowKey lk rk) = ks.map some ∧ Sorted ks :=
  relJoin_keys_sorted how hhow hl hr

example : (relJoin "right" [0, 2, 2] [2, 5, 5]).map (rowKey [0, 2, 2] [2, 5, 5]) = [2, 2, 5, 5].map some := by decide

/-! ## the whole destination frame: `merge_frame_correct_partial`, `hints_irrelevant_partial`, `never_raises_on_truthful_hints_partial` -/

/-- the names `merge` reserves for its own fields in the destination: the two map fields of the ordered path and the two
    validity flags of the unordered path -/
def auxNames (i : Input) : List String :=
  ["_left_map", "_right_map", "valid" ++ i.leftSuffix, "valid" ++ i.rightSuffix]

/-- **truthful hints**: an ordered hint is only given for a non-decreasing key column, a unique hint only for a key column
    without duplicates (`lk` / `rk` are the order embedding of the key tuples) -/
structure TruthfulHints (i : Input) : Prop where
  leftOrdered : i.hintLO = some true → Sorted i.lk
  rightOrdered : i.hintRO = some true → Sorted i.rk
  leftUnique : i.hintLU = some true → i.lk.Nodup
  rightUnique : i.hintRU = some true → i.rk.Nodup

/-- **the frames the property speaks about**: a join mode of the property; `left_on` / `right_on` of the same shape, naming
    non-indexed columns as long as the key embedding; every field to map exists, is as long as its side's key column, an
    indexed-string field is well formed (C01) — nothing is asked about the length of its entries: since fix NC02c the
    streamed mapper sizes its value buffer for the longest entry (`MapValid.autoValueFactor`, floor `vf`); the destination names — the four reserved
    names and the documented (suffixed) names of the mapped fields — are pairwise distinct; fewer than 2^62 rows per
    side (the int64 marker `INVALID_INDEX_64`); chunk size ≥ 1. -/
structure WellFormed (i : Input) (cs vf : Nat) : Prop where
  how : i.how = "left" ∨ i.how = "right" ∨ i.how = "inner" ∨ i.how = "outer"
  tuples : i.leftTuple = i.rightTuple
  tupleLen : i.leftTuple = true → i.leftOn.length = i.rightOn.length
  leftOn : i.leftOn ≠ []
  rightOn : i.rightOn ≠ []
  leftKeys : ∀ k ∈ i.leftOn, ∃ c, look i.left k = some c ∧ c.isIndexed = false ∧ c.len = i.lk.length
  rightKeys : ∀ k ∈ i.rightOn, ∃ c, look i.right k = some c ∧ c.isIndexed = false ∧ c.len = i.rk.length
  leftCols : ∀ k ∈ leftToMap i, ∃ c, look i.left k = some c ∧ ColWF c i.lk.length
  rightCols : ∀ k ∈ rightToMap i, ∃ c, look i.right k = some c ∧ ColWF c i.rk.length
  names : (auxNames i ++ (leftToMap i).map (leftName i) ++ (rightToMap i).map (rightName i)).Nodup
  sizeL : i.lk.length ≤ 4611686018427387904
  sizeR : i.rk.length ≤ 4611686018427387904
  chunk : 1 ≤ cs

/-- the recorded ASSUMPTION about `pandas.merge` (a parameter of the model; the harness checks it on every case that takes
    the unordered path): on the key columns it returns the rows of the relational join, in some order -/
def PandasOK (pandas : String → List Int → List Int → Except Err Pairs) (i : Input) : Prop :=
  ∃ pairs, pandas i.how i.lk i.rk = .ok pairs ∧ pairs.Perm (relJoin i.how i.lk i.rk)

/-- **`dest` is the table whose rows are `rows`**: under its documented name (`leftName` / `rightName`: suffixed exactly
    when the other side maps a field of the same name) every mapped field of the left (right) frame holds, in row `r`,
    the source value at the left (right) row number of `rows[r]`, or the type's empty value where that side is unmatched;
    every column of `dest` has `rows.length` rows; `dest` has no column besides these and `merge`'s reserved ones. -/
structure IsJoinFrame (i : Input) (dest : Frame) (rows : List JoinRow) : Prop where
  left : ∀ k ∈ leftToMap i, ∀ c, look i.left k = some c →
    ∃ out, look dest (leftName i k) = some out ∧ selectCol c (rows.map (·.1)) = some out
  right : ∀ k ∈ rightToMap i, ∀ c, look i.right k = some c →
    ∃ out, look dest (rightName i k) = some out ∧ selectCol c (rows.map (·.2)) = some out
  len : ∀ n c, look dest n = some c → c.len = rows.length
  cols : ∀ n ∈ names dest, n ∈ auxNames i ∨ n ∈ (leftToMap i).map (leftName i) ∨ n ∈ (rightToMap i).map (rightName i)

theorem getD_true {o : Option Bool} (h : o.getD false = true) : o = some true := by
  cases o with
  | none => cases h
  | some b => cases b <;> simp_all

/-- **C02, `merge_correct`** (registered under its historical name `…_partial`; it IS the full statement since fix NC02c:
    `WellFormed` no longer bounds the length of indexed-string entries — as found, on the ordered path
    `ordered_map_valid_indexed_stream` raised "entry does not fit the value buffer" for an entry longer than
    `chunksize * value_factor` (2^23 bytes with the defaults) while the hint-free call succeeded, witness
    `Exetera.Witness.C02.nc02c_long_entry_raises_only_with_hints`). For every join mode left / right / inner / outer, every
    truthful combination of the four
    hints, all well-formed frames (single or compound keys, field subsets, name clashes, every field type incl. indexed
    strings of any length), every chunk size ≥ 1, and — only where the call takes the unordered path — `pandas.merge` assumed to
    return a permutation of the relational join:
    `merge` succeeds, and its destination frame is the table of a row list `rows` that is a permutation of
    `relJoin how lk rk` — same multiset of (left columns | empty, right columns | empty) rows, every destination column
    of equal length, clashing names suffixed as documented. On the ordered path (`isOrdered`: both ordered hints, single
    key, mode ≠ outer) `rows` IS `relJoin how lk rk` in its own order, and the row keys are non-decreasing. -/
theorem merge_frame_correct_partial (pandas : String → List Int → List Int → Except Err Pairs) (i : Input) (cs vf fuel : Nat)
    (hwf : WellFormed i cs vf) (hth : TruthfulHints i) (hpd : isOrdered i = false → PandasOK pandas i)
    (hfuel : i.lk.length + i.rk.length + 2 * (relJoin i.how i.lk i.rk).length + 1 ≤ fuel) :
    ∃ dest rows, merge pandas i cs vf fuel = .ok dest ∧ rows.Perm (relJoin i.how i.lk i.rk) ∧ IsJoinFrame i dest rows ∧
      (isOrdered i = true → rows = relJoin i.how i.lk i.rk ∧
        ∃ ks, rows.map (rowKey i.lk i.rk) = ks.map some ∧ Sorted ks) := by
  have hsup : supportedModes.contains i.how = true := by
    rcases hwf.how with h | h | h | h <;> rw [h] <;> decide
  rw [merge_front pandas i cs vf fuel hsup hwf.tuples hwf.tupleLen hwf.leftOn hwf.rightOn hwf.leftKeys hwf.rightKeys
    (fun k hk => by obtain ⟨c, h1, h2⟩ := hwf.leftCols k hk; exact ⟨c, h1, h2.len⟩)
    (fun k hk => by obtain ⟨c, h1, h2⟩ := hwf.rightCols k hk; exact ⟨c, h1, h2.len⟩) hwf.names]
  cases hord : isOrdered i with
  | true =>
    simp only [if_true]
    -- what `ordered` means
    simp only [isOrdered, Bool.and_eq_true] at hord
    obtain ⟨⟨⟨⟨o1, o2⟩, _⟩, _⟩, o5⟩ := hord
    have hhow : i.how = "left" ∨ i.how = "right" ∨ i.how = "inner" := by simpa using o5
    have hl : Sorted i.lk := hth.leftOrdered (getD_true o1)
    have hr : Sorted i.rk := hth.rightOrdered (getD_true o2)
    have hlu : Truthful (i.hintLU.getD false) i.lk := fun h => strict_of_sorted_nodup hl (hth.leftUnique (getD_true h))
    have hru : Truthful (i.hintRU.getD false) i.rk := fun h => strict_of_sorted_nodup hr (hth.rightUnique (getD_true h))
    have hs := sentinel_choice (i.hintLU.getD false) (i.hintRU.getD false) i.lk.length i.rk.length
    generalize hinv : (if (i.hintLU.getD false || i.hintRU.getD false) = true then
      (if ((i.lk.length : Int) < 2147483647 && (i.rk.length : Int) < 2147483647) = true then (2147483647 : Int)
        else 4611686018427387904) else 4611686018427387904) = inv at hs
    have hsl := hwf.sizeL
    have hsr := hwf.sizeR
    have hinvLR : (i.lk.length : Int) ≤ inv ∧ (i.rk.length : Int) ≤ inv := by
      rw [← hinv]
      split
      · split
        · rename_i hc
          simp only [Bool.and_eq_true, decide_eq_true_eq] at hc
          omega
        · omega
      · omega
    obtain ⟨p, o, h1, h2, m1, m2, c1, c2⟩ := merge_ordered_columns_correct i.how hhow (i.hintLU.getD false)
      (i.hintRU.getD false) i.lk i.rk hl hr hlu hru cs vf hwf.chunk inv hinvLR.1 hinvLR.2 fuel hfuel
    obtain ⟨dest, d1, d2, d3, d4, d5⟩ := orderedMerge_frame i (leftToMap i) (rightToMap i) i.lk.length i.rk.length
      (i.hintLU.getD false) (i.hintRU.getD false) cs vf fuel inv p o (leftSel i.how i.lk i.rk) (rightSel i.how i.lk i.rk)
      (relJoin i.how i.lk i.rk).length o5 hs h1 h2
      (fun m hm => by rw [m1 m hm]; simp [encSel, leftSel])
      (fun m hm => by rw [m2 m hm]; simp [encSel, rightSel])
      (by simp [leftSel]) (by simp [rightSel])
      (fun k hk => by
        obtain ⟨c, g1, g2⟩ := hwf.leftCols k hk
        obtain ⟨out, g3, g4⟩ := c1 c g2
        exact ⟨c, out, g1, g3, g4⟩)
      (fun k hk => by
        obtain ⟨c, g1, g2⟩ := hwf.rightCols k hk
        obtain ⟨out, g3, g4⟩ := c2 c g2
        exact ⟨c, out, g1, g3, g4⟩)
      (nodup_ordered_names _ _ _ _ _ _ hwf.names)
    refine ⟨dest, relJoin i.how i.lk i.rk, d1, List.Perm.refl _, ⟨d2, d3, d4, ?_⟩, fun _ => ⟨rfl, ?_⟩⟩
    · intro n hn
      rcases d5 n hn with h | h | h
      · left
        simp only [auxNames, List.mem_cons] at h ⊢
        rcases h with h | h | h
        · exact Or.inl h
        · exact Or.inr (Or.inl h)
        · cases h
      · exact Or.inr (Or.inl h)
      · exact Or.inr (Or.inr h)
    · exact ordered_path_key_order i.how hhow i.lk i.rk hl hr
  | false =>
    simp only [Bool.false_eq_true, if_false]
    obtain ⟨pairs, hp1, hp2⟩ := hpd hord
    obtain ⟨dest, d1, d2, d3, d4, d5⟩ := unorderedMerge_frame pandas i (leftToMap i) (rightToMap i) pairs hp1
      (fun x hx => by
        obtain ⟨q, hq, hqx⟩ := List.mem_map.mp hx
        exact (relJoin_in_range i.how i.lk i.rk q (hp2.subset hq)).1 x hqx)
      (fun x hx => by
        obtain ⟨q, hq, hqx⟩ := List.mem_map.mp hx
        exact (relJoin_in_range i.how i.lk i.rk q (hp2.subset hq)).2 x hqx)
      hwf.leftCols hwf.rightCols (nodup_unordered_names _ _ _ _ _ _ hwf.names)
    refine ⟨dest, pairs, d1, hp2, ⟨d2, d3, d4, ?_⟩, fun h => by cases h⟩
    intro n hn
    rcases d5 n hn with h | h | h
    · left
      simp only [auxNames, List.mem_cons] at h ⊢
      rcases h with h | h | h
      · exact Or.inr (Or.inr (Or.inl h))
      · exact Or.inr (Or.inr (Or.inr (Or.inl h)))
      · cases h
    · exact Or.inr (Or.inl h)
    · exact Or.inr (Or.inr h)

/-- the same call without any hint -/
def noHints (i : Input) : Input := { i with hintLO := none, hintLU := none, hintRO := none, hintRU := none }

/-- **C02, `hints_irrelevant`** (historical name `…_partial`; full since fix NC02c, see `merge_frame_correct_partial`).
    With truthful hints `merge` produces the same table as the hint-free call: both succeed,
    both destinations are the table (`IsJoinFrame`: same fields, same documented names, every column the selected source
    rows) of a row list, and the two row lists are permutations of each other — the hints change which code runs (streamed
    generators vs `pandas.merge`) and the row order, never the multiset of (left columns, right columns) rows. -/
theorem hints_irrelevant_partial (pandas : String → List Int → List Int → Except Err Pairs) (i : Input) (cs vf fuel : Nat)
    (hwf : WellFormed i cs vf) (hth : TruthfulHints i) (hpd : PandasOK pandas i)
    (hfuel : i.lk.length + i.rk.length + 2 * (relJoin i.how i.lk i.rk).length + 1 ≤ fuel) :
    ∃ dest dest0 rows rows0, merge pandas i cs vf fuel = .ok dest ∧ merge pandas (noHints i) cs vf fuel = .ok dest0 ∧
      rows.Perm rows0 ∧ IsJoinFrame i dest rows ∧ IsJoinFrame i dest0 rows0 := by
  obtain ⟨dest, rows, a1, a2, a3, _⟩ := merge_frame_correct_partial pandas i cs vf fuel hwf hth (fun _ => hpd) hfuel
  have hwf0 : WellFormed (noHints i) cs vf :=
    ⟨hwf.how, hwf.tuples, hwf.tupleLen, hwf.leftOn, hwf.rightOn, hwf.leftKeys, hwf.rightKeys, hwf.leftCols, hwf.rightCols,
      hwf.names, hwf.sizeL, hwf.sizeR, hwf.chunk⟩
  have hth0 : TruthfulHints (noHints i) := ⟨nofun, nofun, nofun, nofun⟩
  obtain ⟨dest0, rows0, b1, b2, b3, _⟩ := merge_frame_correct_partial pandas (noHints i) cs vf fuel hwf0 hth0 (fun _ => hpd) hfuel
  exact ⟨dest, dest0, rows, rows0, a1, b1, a2.trans b2.symm, a3, ⟨b3.left, b3.right, b3.len, b3.cols⟩⟩

/-- **C02, `never_raises_on_truthful_hints`** (historical name `…_partial`; full since fix NC02c — as found a hinted call
    raised for an entry above 2^23 bytes). Under the same hypotheses no error of any kind comes out of `merge`: no
    validation error, no `TypeError` / `ValueError` of the dispatch, no out-of-bounds access or exhausted fuel in a streamed
    generator or column mapper, no "field already exists". -/
theorem never_raises_on_truthful_hints_partial (pandas : String → List Int → List Int → Except Err Pairs) (i : Input)
    (cs vf fuel : Nat) (hwf : WellFormed i cs vf) (hth : TruthfulHints i)
    (hpd : isOrdered i = false → PandasOK pandas i)
    (hfuel : i.lk.length + i.rk.length + 2 * (relJoin i.how i.lk i.rk).length + 1 ≤ fuel) :
    ∀ e, merge pandas i cs vf fuel ≠ .error e := by
  obtain ⟨dest, _, h, _⟩ := merge_frame_correct_partial pandas i cs vf fuel hwf hth hpd hfuel
  intro e he
  rw [h] at he
  cases he

/-! ### the full statements under their own names (fix NC02c removed the last `_partial` hypothesis) -/

/-- **`merge_correct`**: see `merge_frame_correct_partial` (same statement) -/
theorem merge_frame_correct (pandas : String → List Int → List Int → Except Err Pairs) (i : Input) (cs vf fuel : Nat)
    (hwf : WellFormed i cs vf) (hth : TruthfulHints i) (hpd : isOrdered i = false → PandasOK pandas i)
    (hfuel : i.lk.length + i.rk.length + 2 * (relJoin i.how i.lk i.rk).length + 1 ≤ fuel) :
    ∃ dest rows, merge pandas i cs vf fuel = .ok dest ∧ rows.Perm (relJoin i.how i.lk i.rk) ∧ IsJoinFrame i dest rows ∧
      (isOrdered i = true → rows = relJoin i.how i.lk i.rk ∧
        ∃ ks, rows.map (rowKey i.lk i.rk) = ks.map some ∧ Sorted ks) :=
  merge_frame_correct_partial pandas i cs vf fuel hwf hth hpd hfuel

/-- **`hints_irrelevant`**: see `hints_irrelevant_partial` (same statement) -/
theorem hints_irrelevant (pandas : String → List Int → List Int → Except Err Pairs) (i : Input) (cs vf fuel : Nat)
    (hwf : WellFormed i cs vf) (hth : TruthfulHints i) (hpd : PandasOK pandas i)
    (hfuel : i.lk.length + i.rk.length + 2 * (relJoin i.how i.lk i.rk).length + 1 ≤ fuel) :
    ∃ dest dest0 rows rows0, merge pandas i cs vf fuel = .ok dest ∧ merge pandas (noHints i) cs vf fuel = .ok dest0 ∧
      rows.Perm rows0 ∧ IsJoinFrame i dest rows ∧ IsJoinFrame i dest0 rows0 :=
  hints_irrelevant_partial pandas i cs vf fuel hwf hth hpd hfuel

/-- **`never_raises_on_truthful_hints`**: see `never_raises_on_truthful_hints_partial` (same statement) -/
theorem never_raises_on_truthful_hints (pandas : String → List Int → List Int → Except Err Pairs) (i : Input)
    (cs vf fuel : Nat) (hwf : WellFormed i cs vf) (hth : TruthfulHints i)
    (hpd : isOrdered i = false → PandasOK pandas i)
    (hfuel : i.lk.length + i.rk.length + 2 * (relJoin i.how i.lk i.rk).length + 1 ≤ fuel) :
    ∀ e, merge pandas i cs vf fuel ≠ .error e :=
  never_raises_on_truthful_hints_partial pandas i cs vf fuel hwf hth hpd hfuel

/-- an indexed-string entry longer than the floor buffer `cs * vf` (here 2 * 1 bytes against the 3-byte entry "bcd") is no
    obstacle: the hinted merge returns the same table as the hint-free one -/
example : ∃ d, merge (fun how lk rk => .ok (relJoin how lk rk))
    { how := "left", left := [("k", intCol [1, 2]), ("s", .indexed [0, 1, 4] [97, 98, 99, 100])], right := [("k", intCol [2, 3])],
      leftOn := ["k"], rightOn := ["k"], leftTuple := false, rightTuple := false, leftFields := none, rightFields := none,
      hintLO := some true, hintRO := some true, lk := [1, 2], rk := [2, 3] } 2 1 64 = .ok d ∧
    look d "s" = some (.indexed [0, 1, 4] [97, 98, 99, 100]) := ⟨_, rfl, rfl⟩

/-- arguments that pass the validators of `merge` (the part of `WellFormed` that is not about names, entry sizes or frame
    sizes) -/
structure ArgsOK (i : Input) : Prop where
  how : i.how = "left" ∨ i.how = "right" ∨ i.how = "inner" ∨ i.how = "outer"
  tuples : i.leftTuple = i.rightTuple
  tupleLen : i.leftTuple = true → i.leftOn.length = i.rightOn.length
  leftOn : i.leftOn ≠ []
  rightOn : i.rightOn ≠ []
  leftKeys : ∀ k ∈ i.leftOn, ∃ c, look i.left k = some c ∧ c.isIndexed = false ∧ c.len = i.lk.length
  rightKeys : ∀ k ∈ i.rightOn, ∃ c, look i.right k = some c ∧ c.isIndexed = false ∧ c.len = i.rk.length
  leftCols : ∀ k ∈ leftToMap i, ∃ c, look i.left k = some c ∧ c.len = i.lk.length
  rightCols : ∀ k ∈ rightToMap i, ∃ c, look i.right k = some c ∧ c.len = i.rk.length

/-- **A clash among the destination names is a `ValueError` before anything is written — with and without hints** (fix
    NC02b). This is the guard `WellFormed.names` excludes: a source field called `_left_map`, `_right_map`, `valid_l` or
    `valid_r`, or two mapped fields with the same (suffixed) destination name. As found, such a call raised or succeeded
    depending on the hints (`_left_map`: only the ordered path raised; `valid_l`: only the unordered one). -/
theorem name_clash_rejected (pandas : String → List Int → List Int → Except Err Pairs) (i : Input) (cs vf fuel : Nat)
    (ha : ArgsOK i)
    (hclash : ¬ (auxNames i ++ (leftToMap i).map (leftName i) ++ (rightToMap i).map (rightName i)).Nodup) :
    (∃ msg, merge pandas i cs vf fuel = .error (.valueError msg)) ∧
    merge pandas (noHints i) cs vf fuel = merge pandas i cs vf fuel := by
  have hsup : supportedModes.contains i.how = true := by
    rcases ha.how with h | h | h | h <;> rw [h] <;> decide
  have hnd : allDistinct (allDestNames i (leftToMap i) (rightToMap i)) = false := by
    rw [Bool.eq_false_iff]
    intro h
    exact hclash ((allDistinct_iff _).mp h)
  have h1 := merge_front' pandas i cs vf fuel hsup ha.tuples ha.tupleLen ha.leftOn ha.rightOn ha.leftKeys ha.rightKeys
    ha.leftCols ha.rightCols
  have h2 := merge_front' pandas (noHints i) cs vf fuel hsup ha.tuples ha.tupleLen ha.leftOn ha.rightOn ha.leftKeys
    ha.rightKeys ha.leftCols ha.rightCols
  have hnd0 : allDistinct (allDestNames (noHints i) (leftToMap (noHints i)) (rightToMap (noHints i))) = false := hnd
  rw [hnd] at h1
  rw [hnd0] at h2
  simp only [Bool.not_false, if_true] at h1 h2
  exact ⟨⟨_, h1⟩, by rw [h1, h2]⟩

/-! ## non-vacuity of the whole-frame theorems

Two frames with duplicate keys on BOTH sides (`2, 2` against `2, 2`), unmatched rows at both ends of both key columns
(`0`, `9` on the left, `1`, `5` on the right), a name clash (`k` on both sides → `k_l`, `k_r`) and an indexed-string
column (`s` = "a", "bc", "", "d"); chunk size 2, so every streamed loop runs several chunks. -/

/-- a `pandas.merge` that returns the relational join in REVERSE order (any permutation satisfies the assumption) -/
def exPandas (how : String) (lk rk : List Int) : Except Err Pairs := .ok (relJoin how lk rk).reverse

theorem exPandas_ok (i : Input) : PandasOK exPandas i := ⟨_, rfl, List.reverse_perm _⟩

def exInput (how : String) (hint : Option Bool) : Input :=
  { how := how
    left := [("k", intCol [0, 2, 2, 9]), ("s", .indexed [0, 1, 3, 3, 4] [97, 98, 99, 100])]
    right := [("k", intCol [1, 2, 2, 5]), ("v", .flat (.int 0) [.int 10, .int 20, .int 30, .int 40])]
    leftOn := ["k"], rightOn := ["k"], leftTuple := false, rightTuple := false
    leftFields := none, rightFields := none
    hintLO := hint, hintRO := hint
    lk := [0, 2, 2, 9], rk := [1, 2, 2, 5] }

theorem exInput_wf (how : String) (hhow : how = "left" ∨ how = "right" ∨ how = "inner" ∨ how = "outer")
    (hint : Option Bool) : WellFormed (exInput how hint) 2 8 where
  how := hhow
  tuples := rfl
  tupleLen := by intro h; cases h
  leftOn := by simp [exInput]
  rightOn := by simp [exInput]
  leftKeys := by
    intro k hk
    have : k = "k" := by simpa [exInput] using hk
    subst this
    exact ⟨_, rfl, rfl, rfl⟩
  rightKeys := by
    intro k hk
    have : k = "k" := by simpa [exInput] using hk
    subst this
    exact ⟨_, rfl, rfl, rfl⟩
  leftCols := by
    intro k hk
    have : k = "k" ∨ k = "s" := by simpa [leftToMap, names, exInput] using hk
    rcases this with rfl | rfl
    · exact ⟨_, rfl, ⟨rfl, fun ix vs h => by simp [intCol] at h⟩⟩
    · exact ⟨_, rfl, ⟨rfl, fun ix vs h => by cases h; unfold IndexedOK; decide⟩⟩
  rightCols := by
    intro k hk
    have : k = "k" ∨ k = "v" := by simpa [rightToMap, names, exInput] using hk
    rcases this with rfl | rfl
    · exact ⟨_, rfl, ⟨rfl, fun ix vs h => by simp [intCol] at h⟩⟩
    · exact ⟨_, rfl, ⟨rfl, fun ix vs h => by cases h⟩⟩
  names := by
    show (["_left_map", "_right_map", "valid_l", "valid_r", "k_l", "s", "k_r", "v"] : List String).Nodup
    decide
  sizeL := by simp [exInput]
  sizeR := by simp [exInput]
  chunk := by decide

theorem exInput_truthful (how : String) (hint : Option Bool) : TruthfulHints (exInput how hint) :=
  ⟨fun _ => by simp [exInput, Sorted], fun _ => by simp [exInput, Sorted], nofun, nofun⟩

/-- with both ordered hints the left join takes the ordered path, the outer join never does -/
example : isOrdered (exInput "left" (some true)) = true ∧ isOrdered (exInput "outer" (some true)) = false := by decide

/-- the hypotheses of the three theorems are met by this input, on both paths -/
example := merge_frame_correct_partial exPandas (exInput "left" (some true)) 2 8 64 (exInput_wf _ (Or.inl rfl) _)
  (exInput_truthful _ _) (fun _ => exPandas_ok _) (by decide)
example := merge_frame_correct_partial exPandas (exInput "outer" none) 2 8 64 (exInput_wf _ (Or.inr (Or.inr (Or.inr rfl))) _)
  (exInput_truthful _ _) (fun _ => exPandas_ok _) (by decide)
example := hints_irrelevant_partial exPandas (exInput "right" (some true)) 2 8 64 (exInput_wf _ (Or.inr (Or.inl rfl)) _)
  (exInput_truthful _ _) (exPandas_ok _) (by decide)
example := never_raises_on_truthful_hints_partial exPandas (exInput "inner" (some true)) 2 8 64
  (exInput_wf _ (Or.inr (Or.inr (Or.inl rfl))) _) (exInput_truthful _ _) (fun _ => exPandas_ok _) (by decide)

/-- what the model computes on it — ordered path, `how='left'`: rows in key order, the right map non-monotone -/
example : merge exPandas (exInput "left" (some true)) 2 8 64 = .ok
    [("_left_map", intCol [0, 1, 1, 2, 2, 3]), ("_right_map", intCol [4611686018427387904, 1, 2, 1, 2, 4611686018427387904]),
     ("k_l", intCol [0, 2, 2, 2, 2, 9]), ("s", .indexed [0, 1, 3, 5, 5, 5, 6] [97, 98, 99, 98, 99, 100]),
     ("k_r", intCol [0, 2, 2, 2, 2, 0]), ("v", .flat (.int 0) [.int 0, .int 20, .int 30, .int 20, .int 30, .int 0])] := by
  rfl

/-- … and on the unordered path, `how='outer'`, rows in the (reversed) order `exPandas` returns them -/
example : merge exPandas (exInput "outer" none) 2 8 64 = .ok
    [("k_l", intCol [0, 0, 9, 2, 2, 2, 2, 0]), ("s", .indexed [0, 0, 0, 1, 1, 1, 3, 5, 6] [100, 98, 99, 98, 99, 97]),
     ("valid_l", boolCol [false, false, true, true, true, true, true, true]),
     ("k_r", intCol [5, 1, 0, 2, 2, 2, 2, 0]),
     ("v", .flat (.int 0) [.int 40, .int 10, .int 0, .int 30, .int 20, .int 30, .int 20, .int 0]),
     ("valid_r", boolCol [true, true, false, true, true, true, true, false])] := by
  rfl

/-- the NC02b witness on the (repaired) model: a left field called `_left_map` is rejected with AND without the ordered hints -/
def exReserved (hint : Option Bool) : Input :=
  { how := "left"
    left := [("k", intCol [1, 2, 3]), ("_left_map", intCol [10, 11, 12])]
    right := [("k", intCol [2, 3, 4])]
    leftOn := ["k"], rightOn := ["k"], leftTuple := false, rightTuple := false
    leftFields := none, rightFields := none
    hintLO := hint, hintRO := hint
    lk := [1, 2, 3], rk := [2, 3, 4] }

example : (∃ msg, merge exPandas (exReserved (some true)) 2 8 64 = .error (.valueError msg)) ∧
    (∃ msg, merge exPandas (exReserved none) 2 8 64 = .error (.valueError msg)) := ⟨⟨_, rfl⟩, ⟨_, rfl⟩⟩

/-- the hypotheses of `name_clash_rejected` are met by it: the arguments pass every validator, the names clash -/
theorem exReserved_args (hint : Option Bool) : ArgsOK (exReserved hint) where
  how := Or.inl rfl
  tuples := rfl
  tupleLen := by intro h; cases h
  leftOn := by simp [exReserved]
  rightOn := by simp [exReserved]
  leftKeys := by
    intro k hk
    have : k = "k" := by simpa [exReserved] using hk
    subst this
    exact ⟨_, rfl, rfl, rfl⟩
  rightKeys := by
    intro k hk
    have : k = "k" := by simpa [exReserved] using hk
    subst this
    exact ⟨_, rfl, rfl, rfl⟩
  leftCols := by
    intro k hk
    have : k = "k" ∨ k = "_left_map" := by simpa [leftToMap, names, exReserved] using hk
    rcases this with rfl | rfl <;> exact ⟨_, rfl, rfl⟩
  rightCols := by
    intro k hk
    have : k = "k" := by simpa [rightToMap, names, exReserved] using hk
    subst this
    exact ⟨_, rfl, rfl⟩

example := name_clash_rejected exPandas (exReserved (some true)) 2 8 64 (exReserved_args _) (by
  show ¬ (["_left_map", "_right_map", "valid_l", "valid_r", "k_l", "_left_map", "k_r"] : List String).Nodup
  decide)

/-!
## The full statements and every hypothesis

`merge_frame_correct` / `hints_irrelevant` / `never_raises_on_truthful_hints` are the property's three clauses at full
strength over the whole-frame model function `merge pandas i cs vf fuel`, all four modes, both paths; the theorems of the
same names with `_partial` appended are the identical statements under the names they were registered with while finding
NC02c was open (then `WellFormed.leftCols` / `rightCols` bounded the length of indexed-string entries by the streamed value
buffer `cs * vf`: with both ordered hints an entry longer than `chunksize * value_factor` made
`ordered_map_valid_indexed_stream` raise the clear error of fix D5 while the hint-free call succeeded — witness
`Witness.C02.nc02c_long_entry_raises_only_with_hints`). Fix NC02c lets the stream size its value buffer for the longest entry
of the source (`MapValid.autoValueFactor`; `Lemmas/MergeFit.lean: entries_fit_auto`), the hypothesis is gone (`ColWF`).
`merge_correct_partial` (the earlier column-by-column form with the spec facts as hypotheses) is kept;
`merge_ordered_columns_correct` is the same statement with those hypotheses discharged.
The five gaps listed by the previous revision are closed by:
  1. `Lemmas/MergeFrame.lean`: `addAll_ok`, `addAll_nil_ok`, `look_of_mem` (sequential `create_like`);
  2. `Lemmas/MergeWhole.lean`: `merge_front` (validators pass, `left_len = lk.length`, path choice);
  3. `Lemmas/MergeSpec.lean`: `relJoin_in_range`, `leftJoin_sel_of_nodup`; here `leftSel_in_range`, `rightSel_in_range`,
     `no_map_is_identity`; `Lemmas/MergeFrame.lean`: `selectCol_id` (a stored indexed column is the encoding of its entries);
  4. `Lemmas/MergeSpec.lean`: `relJoin_keys_sorted`; here `ordered_path_key_order`;
  5. `Lemmas/MergeWhole.lean`: `unorderedMerge_frame`, `orderedMerge_frame`.
Hypotheses, all visible in `WellFormed` / `TruthfulHints` / `PandasOK` and in the theorem statements:
  * `pandas.merge` returns a permutation of `relJoin` (a PARAMETER of the model; recorded assumption, checked by the
    harness on every case that takes the unordered path);
  * the destination names are pairwise distinct INCLUDING the four names `merge` reserves (`_left_map`, `_right_map`,
    `valid<left_suffix>`, `valid<right_suffix>`): a source field called `_left_map` makes the ordered path raise "field
    already exists" while the hint-free call succeeds, a field called `valid_l` does the converse — finding NC02b. With
    fix NC02b `merge` checks exactly this up front and raises `ValueError` on both paths (`name_clash_rejected`), so the
    hypothesis is the code's own guard;
  * fewer than 2^62 rows per side (the marker `INVALID_INDEX_64` must exceed every row number);
  * `fuel` at least `|lk| + |rk| + 2·|relJoin| + 1` (the streamed generators' variant, C12);
  * `lk` / `rk` are an order embedding of the key tuples (DESIGN 1.4): the tie between them and the key COLUMNS of the
    frames is the harness's, not a theorem's.
-/

end Exetera.Props.C02
