import Exetera.Lemmas.C19StreamKernel
/-!
  C19, legacy streamed left map, part 2: one iteration of the driver loop of
  `generate_ordered_map_to_left_right_unique_streamed_old` (kernel call, write, re-slice or refill of either view), the
  tail loop, and the result: for every chunk size ≥ 1 the map written is the right column of the relational left join.
-/
namespace Exetera.JoinOld
open Exetera Exetera.Spec Exetera.Join Exetera.JoinFlat

/-- the re-slice / refill step of one side: after consuming `n` entries of the view `v = X[i0:hi]` the new view is
    `X[i0+n : hi']`, non-empty unless the column is exhausted, and not longer than the chunk size -/
theorem refill_ok (X : List Int) (cs : Nat) (hcs : 1 ≤ cs) (i0 n hi : Nat) (v : List Int)
    (hv : v = slice X i0 hi) (hn : i0 + n ≤ hi) (hhi : hi ≤ X.length) (hcsz : hi ≤ i0 + cs) :
    ∃ l : Nat × Nat × List Int,
      (if (i0 + n == hi && decide (i0 + n < X.length)) = true then
          match nextRange hi X.length cs with
          | some rg => (Except.ok (rg.2, rg.2, slice X rg.1 rg.2) : Except Err (Nat × Nat × List Int))
          | none => .error (.other "StopIteration")
        else .ok (hi, hi, v.drop n)) = .ok l ∧
      l.1 = l.2.1 ∧ i0 + n ≤ l.2.1 ∧ l.2.1 ≤ X.length ∧ l.2.2 = slice X (i0 + n) l.2.1 ∧
      (i0 + n < l.2.1 ∨ i0 + n = X.length) ∧ l.2.1 ≤ i0 + n + cs := by
  by_cases hc : (i0 + n == hi && decide (i0 + n < X.length)) = true
  · simp only [Bool.and_eq_true, beq_iff_eq, decide_eq_true_eq] at hc
    obtain ⟨h1, h2⟩ := hc
    have hlt : hi < X.length := by omega
    refine ⟨(min X.length (hi + cs), min X.length (hi + cs), slice X hi (min X.length (hi + cs))), ?_, rfl, ?_, ?_, ?_, ?_, ?_⟩
    · simp only [h1, beq_self_eq_true, hlt, decide_true, Bool.and_self, if_true, nextRange]
    · simp only []; omega
    · simp only []; omega
    · simp only [h1]
    · simp only []; omega
    · simp only []; omega
  · have hc' : ¬ (i0 + n = hi ∧ i0 + n < X.length) := by
      simpa only [Bool.and_eq_true, beq_iff_eq, decide_eq_true_eq] using hc
    refine ⟨(hi, hi, v.drop n), ?_, rfl, hn, hhi, ?_, ?_, ?_⟩
    · simp only [hc, if_false]
      rfl
    · simp only [hv, slice_drop]
    · simp only []; omega
    · simp only []; omega

def smu (L R : List Int) (s : SO) : Nat := (L.length - s.i) + (R.length - s.j)

/-- **one iteration of the driver loop** -/
theorem oldBody_step {L R : List Int} {cs : Nat} {inv : Int} {s : SO} (hcs : 1 ≤ cs) (hL : Sorted L)
    (hR : R.Pairwise (· < ·)) (hS : SInv L R cs inv s)
    (hg : (decide (s.i < L.length) && decide (s.j < R.length)) = true) :
    ∃ s', oldBody L R cs inv s = .ok s' ∧ SInv L R cs inv s' ∧ smu L R s' < smu L R s := by
  simp only [Bool.and_eq_true, decide_eq_true_eq] at hg
  obtain ⟨hi, hj⟩ := hg
  obtain ⟨p, hrun, hK, hend⟩ := runPartialOld_spec hL hR hS
  have hll := hS.lc_length
  have hrl := hS.rc_length
  have hi' : s.i < s.lhi := by have := hS.lne; omega
  have hj' : s.j < s.rhi := by have := hS.rne; omega
  have hile := hK.ile
  have hjle := hK.jle
  have hprog : 0 < p.i + p.j := by omega
  have hout : (if p.i > 0 then s.out ++ p.buf else s.out) = s.out ++ p.buf := by
    by_cases h : p.i > 0
    · simp [h]
    · have : p.buf = [] := List.eq_nil_of_length_eq_zero (by rw [hK.blen]; omega)
      simp [h, this]
  obtain ⟨l, hl, l1, l2, l3, l4, l5, l6⟩ := refill_ok L cs hcs s.i p.i s.lhi s.lc hS.lc (by omega) hS.lhl hS.lcs
  obtain ⟨r, hr, r1, r2, r3, r4, r5, r6⟩ := refill_ok R cs hcs s.j p.j s.rhi s.rc hS.rc (by omega) hS.rhl hS.rcs
  have hn1 : ¬ (s.i + p.i > s.lhi) := by omega
  have hn2 : ¬ (s.j + p.j > s.rhi) := by omega
  simp only [oldBody, hrun, hS.lcur, hS.rcur, hout, hn1, hn2, if_false]
  split
  · rename_i l' r' h1 h2
    have e1 : (Except.ok l : Except Err _) = Except.ok l' := hl.symm.trans h1
    have e2 : (Except.ok r : Except Err _) = Except.ok r' := hr.symm.trans h2
    cases e1
    cases e2
    refine ⟨_, rfl, ⟨l2, l3, l1, l4, l5, l6, r2, r3, r1, r4, r5, r6, ?_, ?_, hK.below⟩, ?_⟩
    · simp [hS.olen, hK.blen]
    · exact hK.out
    · simp only [smu]; omega
  · rename_i e h1
    have e1 : (Except.ok l : Except Err _) = Except.error e := hl.symm.trans h1
    cases e1
  · rename_i e h2 _
    have e2 : (Except.ok r : Except Err _) = Except.error e := hr.symm.trans h2
    cases e2

theorem Below.add_left {L R : List Int} {I J : Nat} (hL : Sorted L) (h : Below L R I J) : ∀ n, Below L R (I + n) J
  | 0 => h
  | n + 1 => by
    have := Below.step_left hL (Below.add_left hL h n)
    simpa [Nat.add_assoc] using this

/-- when the right column is exhausted every remaining left row is unmatched -/
theorem rest_tail {L R : List Int} (inv : Int) (hL : Sorted L) (hR : Sorted R) :
    ∀ (n I : Nat), I + n ≤ L.length → Below L R I R.length →
      encR inv (rest L R I) = List.replicate n inv ++ encR inv (rest L R (I + n))
  | 0, I, _, _ => by simp
  | n + 1, I, hI, hb => by
    have hlt : I < L.length := by omega
    have hr := rest_unmatched hR hb (get?_some_of_lt hlt) (Nat.le_refl _) (fun b hb' => by
      have := (List.getElem?_eq_some_iff.mp hb').1; omega)
    have ih := rest_tail inv hL hR n (I + 1) (by omega) (Below.step_left hL hb)
    rw [hr, encR_cons_none, ih, List.replicate_succ]
    simp [Nat.add_assoc, Nat.add_comm 1 n]

/-- invariant of the tail loop (NC19a repaired) -/
structure TInv (L R : List Int) (inv : Int) (s : SO) : Prop where
  ile : s.i ≤ L.length
  olen : s.out.length = s.i
  out : s.out ++ encR inv (rest L R s.i) = encR inv (leftJoin L R)
  below : Below L R s.i R.length

theorem oldTailBody_step {L R : List Int} {cs : Nat} {inv : Int} {s : SO} (hcs : 1 ≤ cs) (hL : Sorted L) (hR : Sorted R)
    (hT : TInv L R inv s) (hg : decide (s.i < L.length) = true) :
    ∃ s', oldTailBody L cs inv s = .ok s' ∧ TInv L R inv s' ∧ L.length - s'.i < L.length - s.i := by
  have hi : s.i < L.length := by simpa using hg
  have hrt := rest_tail inv hL hR (min cs (L.length - s.i)) s.i (by omega) hT.below
  have hout := hT.out
  rw [hrt] at hout
  refine ⟨_, rfl, ⟨by simp only []; omega, by simp [hT.olen], ?_, Below.add_left hL hT.below _⟩, by simp only []; omega⟩
  simpa using hout

/-- **the legacy streamed left map equals the relational left join for every chunk size ≥ 1** (sorted left keys,
    duplicate-free right keys): no out-of-bounds access, no `'i' has got ahead` / `StopIteration` error, both loops end
    within their fuel, and `left_to_right` holds `encR inv (leftJoin L R)` — the value the flat kernel
    `generate_ordered_map_to_left_right_unique` returns (`generateLeft_eq`). -/
theorem streamedOld_eq {L R : List Int} (inv : Int) {cs : Nat} (hcs : 1 ≤ cs) (hL : Sorted L) (hR : R.Pairwise (· < ·)) :
    ∃ u, streamedOld L R inv cs = .ok (u, encR inv (leftJoin L R)) := by
  have hfirst : ∀ n : Nat, (nextRange 0 n cs).getD (0, 0) = (0, min n cs) := by
    intro n
    by_cases h : 0 < n
    · simp [nextRange, h]
    · have : n = 0 := by omega
      subst this
      simp [nextRange]
  have h0 : SInv L R cs inv
      { lcur := min L.length cs, rcur := min R.length cs, lhi := min L.length cs, rhi := min R.length cs,
        lc := slice L 0 (min L.length cs), rc := slice R 0 (min R.length cs) } :=
    ⟨Nat.zero_le _, by simp only []; omega, rfl, rfl, by simp only []; omega, by simp only []; omega,
     Nat.zero_le _, by simp only []; omega, rfl, rfl, by simp only []; omega, by simp only []; omega,
     rfl, by simp [rest_zero], Below.zero L R 0⟩
  obtain ⟨s1, hw1, hS1, hg1⟩ := whileE_rule (fun s : SO => decide (s.i < L.length) && decide (s.j < R.length))
    (oldBody L R cs inv) (SInv L R cs inv) (smu L R) (fun s hS hg => oldBody_step hcs hL hR hS hg)
    (L.length + R.length) _ h0 (by simp [smu])
  have hT1 : TInv L R inv s1 := by
    have h1 := hS1.ilh
    have h2 := hS1.lhl
    have h3 := hS1.jrh
    have h4 := hS1.rhl
    refine ⟨by omega, hS1.olen, hS1.out, ?_⟩
    simp only [Bool.and_eq_false_iff, decide_eq_false_iff_not] at hg1
    by_cases hi : s1.i < L.length
    · have hj : s1.j = R.length := by omega
      rw [← hj]
      exact hS1.below
    · exact Below.of_ge (by omega)
  obtain ⟨s2, hw2, hT2, hg2⟩ := whileE_rule (fun s : SO => decide (s.i < L.length)) (oldTailBody L cs inv)
    (TInv L R inv) (fun s => L.length - s.i)
    (fun s hT hg => oldTailBody_step hcs hL (RU.sorted_of_strict hR) hT hg) L.length s1 hT1 (by omega)
  have hi2 : s2.i = L.length := by
    have h1 := hT2.ile
    have : ¬ s2.i < L.length := by simpa using hg2
    omega
  have hout := hT2.out
  rw [hi2, rest_of_ge L R (Nat.le_refl _)] at hout
  refine ⟨decide (s2.unmapped > 0), ?_⟩
  simp only [streamedOld, hfirst, hw1, hw2]
  simpa [encR] using hout

theorem matchRows_length_le_one {k : Int} : ∀ {r : List Int} {base : Nat}, r.Pairwise (· < ·) →
    (matchRows k r base).length ≤ 1
  | [], _, _ => by simp [matchRows]
  | b :: bs, base, h => by
    obtain ⟨h1, h2⟩ := List.pairwise_cons.mp h
    simp only [matchRows]
    split
    · rename_i hbk
      have hb : b = k := by simpa using hbk
      rw [matchRows_eq_nil (fun x hx => by have := h1 x hx; omega)]
      simp
    · exact matchRows_length_le_one h2

theorem leftRow_length_one (base : Nat) : ∀ (ms : List Nat), ms.length ≤ 1 → (leftRow base ms).length = 1
  | [], _ => rfl
  | [_], _ => rfl
  | _ :: _ :: _, h => by simp at h

theorem leftJoinFrom_length {r : List Int} (hR : r.Pairwise (· < ·)) :
    ∀ (l : List Int) (base : Nat), (leftJoinFrom r l base).length = l.length
  | [], _ => rfl
  | a :: as, base => by
    simp only [leftJoinFrom, List.length_append, leftRow_length_one base _ (matchRows_length_le_one hR),
      leftJoinFrom_length hR as (base + 1), List.length_cons]
    omega

/-- the right map column of a left join against a duplicate-free right column has one entry per left row -/
theorem encR_leftJoin_length {L R : List Int} (inv : Int) (hR : R.Pairwise (· < ·)) :
    (encR inv (leftJoin L R)).length = L.length := by
  simp [encR, leftJoin, leftJoinFrom_length hR]

end Exetera.JoinOld
