import Exetera.Props.C14
import Exetera.Lemmas.GenKernelsCompareArrays
import Exetera.Lemmas.GenKernelsUnique
import Exetera.Lemmas.GenKernelsIsin
/-!
  C14 over the TRANSLATED `compare_arrays` (`Gen/Kernels.lean`, regenerated from operations.py by tools/translate_njit.py on every
  run) — the first translated kernel with a `return` inside a loop (early-exit flag and result slot).

  * `gen_compare_arrays_ok`: every successful run of the model `compareArrays` is a run of the translated kernel with the same result;
  * `gen_compare_arrays_is_lex`: the property statement `C14.compare_arrays_is_lex` for the translated kernel — for EVERY pair of byte
    arrays it returns normally (no subscript out of range or negative) the three-way lexicographic comparison.
-/
namespace Exetera.Props.C14Gen

open Exetera Exetera.Unique Exetera.GenK Exetera.Gen.Kernels

theorem gen_compare_arrays_ok (a b : Bytes) (r : Int) (h : compareArrays a b = .ok r) :
    compare_arrays.run (ints8 a) (ints8 b) = .ok r :=
  compare_arrays_ok a b r h

theorem gen_compare_arrays_is_lex (a b : Bytes) : compare_arrays.run (ints8 a) (ints8 b) = .ok (Spec.lexCmp a b) :=
  compare_arrays_ok a b _ (C14.compare_arrays_is_lex a b)

example : compare_arrays.run [97, 98] [97, 98, 99] = .ok (-1) ∧ compare_arrays.run [97, 99] [97, 98, 99] = .ok 1 ∧
    compare_arrays.run [] [] = .ok 0 := ⟨rfl, rfl, rfl⟩

/-! ### `get_indexed_string_unique` (KT4B) -/

open Exetera.GenK.GU in
/-- transfer: every `.ok` run of the model `getIndexedStringUnique` is a run of the TRANSLATED `get_indexed_string_unique` — called
    as `unique_for_indexed_string` calls it, with an empty `unique_result` and empty / absent (`None`) companion lists — that
    leaves the same four lists (bytes as ints, positions as ints) -/
theorem gen_unique_ok (indices : List Nat) (values : Bytes) (ri rv rc : Bool) (o : UOut)
    (h : getIndexedStringUnique indices values ri rv rc = .ok o) :
    get_indexed_string_unique.run (natsI indices) (ints8 values) [] (optNil ri) (optNil rv) (optNil rc)
      = .ok (o.result.map ints8, o.index.map natsI, o.inverse.map natsI, o.counts.map natsI) :=
  get_indexed_string_unique_ok indices values ri rv rc o h

open Exetera.GenK.GU in
/-- the property-level statement (`C14.unique_kernel_discovery_order`) for the translated kernel itself: on the stored form of ANY
    column and every combination of the three flags it returns normally (no subscript out of range or negative) the distinct
    values in discovery order, their first rows, the row → discovery position map and the counts -/
theorem gen_unique_discovery_order (col : List Bytes) (ri rv rc : Bool) :
    get_indexed_string_unique.run (natsI (encode col).1) (ints8 (encode col).2) [] (optNil ri) (optNil rv) (optNil rc)
      = .ok ((discOut ri rv rc col).result.map ints8, (discOut ri rv rc col).index.map natsI,
          (discOut ri rv rc col).inverse.map natsI, (discOut ri rv rc col).counts.map natsI) :=
  get_indexed_string_unique_ok _ _ ri rv rc _ (C14.unique_kernel_discovery_order col ri rv rc)

example : get_indexed_string_unique.run [0, 1, 2, 3, 4] [98, 99, 97, 98] [] (some []) (some []) (some [])
    = .ok ([[98], [99], [97]], some [0, 1, 2], some [0, 1, 2, 0], some [2, 1, 1]) := by rfl
example : get_indexed_string_unique.run [0, 1, 2, 3, 4] [98, 99, 97, 98] [] none (some []) none
    = .ok ([[98], [99], [97]], none, some [0, 1, 2, 0], none) := by rfl
example : GU.natsI (encode [[98], [99], [97], [98]]).1 = [0, 1, 2, 3, 4] ∧ ints8 (encode [[98], [99], [97], [98]]).2 = [98, 99, 97, 98] := by
  decide

/-! ### `isin_indexed_string_speedup` (KT4B) -/

open Exetera.GenK.GU in
/-- transfer: every `.ok` run of the model `isinSpeedup` (row loop around the binary search) is a run of the TRANSLATED
    `isin_indexed_string_speedup` — which calls the translated `compare_arrays` — with the same flags, for any fuel ≥ len(tests) -/
theorem gen_isin_ok (tests : List Bytes) (indices : List Nat) (values : Bytes) (r : List Bool) (fuel : Nat)
    (hfuel : tests.length ≤ fuel) (h : isinSpeedup tests indices values = .ok r) :
    isin_indexed_string_speedup.run (tests.map ints8) (natsI indices) (ints8 values) fuel = .ok r :=
  isin_indexed_string_speedup_ok tests indices values r fuel hfuel h

open Exetera.GenK.GU in
/-- the property-level statement for the translated kernel itself: on a SORTED test list (what `isin_for_indexed_string_field`
    passes: `sorted(test_elements)`) and the stored form of ANY column it returns normally (no subscript out of range or
    negative, the binary search within `len(tests)` iterations) the flag "the row's value is a member of the test list" per row -/
theorem gen_isin_eq_mem (tests col : List Bytes) (hs : SortedLe tests) (fuel : Nat) (hfuel : tests.length ≤ fuel) :
    isin_indexed_string_speedup.run (tests.map ints8) (natsI (encode col).1) (ints8 (encode col).2) fuel
      = .ok (Spec.isin col tests) :=
  isin_indexed_string_speedup_ok tests _ _ _ fuel hfuel (isinSpeedup_encode tests col hs)

/-- … in particular on the list the public function builds, in any order and with duplicates -/
theorem gen_isin_sorted_eq_mem (ts col : List Bytes) (fuel : Nat) (hfuel : ts.length ≤ fuel) :
    isin_indexed_string_speedup.run ((sortedStr ts).map ints8) (GU.natsI (encode col).1) (ints8 (encode col).2) fuel
      = .ok (Spec.isin col (sortedStr ts)) :=
  gen_isin_eq_mem (sortedStr ts) col (sortedStr_sorted ts) fuel (by simpa [sortedStr] using hfuel)

example : isin_indexed_string_speedup.run [[], [97], [195, 169]] [0, 1, 1, 3, 5] [98, 195, 169, 97, 98] 3
    = .ok [false, true, true, false] := by rfl
example : SortedLe [[], [97], [195, 169]] := by simp [SortedLe, Spec.bytesLe, Spec.lexCmp]
/-- an unsorted test list: the binary search misses `[97]` in `[[98], [97]]` (the precondition matters; the kernel still stays inside its arrays) -/
example : isin_indexed_string_speedup.run [[98], [97]] [0, 1] [97] 2 = .ok [false] := by rfl

end Exetera.Props.C14Gen
