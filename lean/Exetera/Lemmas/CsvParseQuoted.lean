import Exetera.Lemmas.CsvParse
import Exetera.Model.Export
/-!
  C18: the reader inverts ExeTera's own record writer `_csv_record` (`Export.csvRecord`, fixes/D30_NC18a) — for EVERY cell
  content and for every reader dialect (blanks at the start of a field skipped or kept, a bare carriage return ending the
  record or not): a cell that starts with a blank or holds a carriage return is written in quotes.
-/
namespace Exetera.Export
open Exetera.Spec.Csv

theorem any_special_eq (c : Cell) : c.any special = (c.contains ',' || c.contains '"' || c.contains '\n') := by
  induction c with
  | nil => rfl
  | cons x xs ih =>
    simp only [List.any_cons, ih, List.contains_cons, special]
    cases hx1 : (x == ',') <;> cases hx2 : (x == '"') <;> cases hx3 : (x == '\n') <;>
      cases xs.contains ',' <;> cases xs.contains '"' <;> cases xs.contains '\n' <;>
      simp_all [BEq.comm (a := x)] <;> simp_all [eq_comm]

/-- a cell written bare has nothing that forces quotes, no carriage return and no leading blank -/
theorem bare_facts {c : Cell} (h : needsQuotes c = false) : c.any special = false ∧ '\r' ∉ c ∧ c.head? ≠ some ' ' := by
  simp only [needsQuotes, Bool.or_eq_false_iff] at h
  obtain ⟨⟨⟨⟨h1, h2⟩, h3⟩, h4⟩, h5⟩ := h
  refine ⟨by rw [any_special_eq, h2, h3, h4]; rfl, by simpa using h5, by simpa using h1⟩

theorem needsQuotes_of_special {c : Cell} (h : c.any special = true) : needsQuotes c = true := by
  rw [any_special_eq] at h
  simp only [Bool.or_eq_true] at h
  simp only [needsQuotes, Bool.or_eq_true]
  rcases h with (h | h) | h
  · exact Or.inl (Or.inl (Or.inl (Or.inr h)))
  · exact Or.inl (Or.inl (Or.inr h))
  · exact Or.inl (Or.inr h)

theorem asRead_of_no_lead (d : Dialect) (c : Cell) (h : c.head? ≠ some ' ') : asRead d c = c := by
  cases c with
  | nil => simp [asRead]
  | cons x xs =>
    have hx : (x == ' ') = false := by simpa using h
    simp only [asRead]
    split
    · simp [List.dropWhile, hx]
    · rfl

theorem qcell_comma (d : Dialect) (c : Cell) (s : St) (hf : Fresh s) :
    run d s (quoteCell c ++ [',']) = ⟨s.recs, c :: s.row, [], .startField⟩ := by
  by_cases hq : needsQuotes c = true
  · simp only [quoteCell, hq, if_true]
    exact quoted_comma d c s hf
  · have hq' : needsQuotes c = false := by simpa using hq
    obtain ⟨hsp, hcr, hb⟩ := bare_facts hq'
    simp only [quoteCell, hq']
    rw [show (if false = true then '"' :: (escape c ++ ['"']) else c) = c from rfl,
      unquoted_comma d c s hf hsp (fun _ => hcr), asRead_of_no_lead d c hb]

theorem qcell_eol (d : Dialect) (c : Cell) (s : St) (hf : Fresh s) (hside : c ≠ [] ∨ s.ps = .startField) :
    run d s (quoteCell c ++ ['\n']) = ⟨(c :: s.row).reverse :: s.recs, [], [], .startRecord⟩ := by
  by_cases hq : needsQuotes c = true
  · simp only [quoteCell, hq, if_true]
    exact quoted_eol d c s hf
  · have hq' : needsQuotes c = false := by simpa using hq
    obtain ⟨hsp, hcr, hb⟩ := bare_facts hq'
    simp only [quoteCell, hq']
    rw [show (if false = true then '"' :: (escape c ++ ['"']) else c) = c from rfl,
      unquoted_eol d c s hf hsp (fun _ => hcr) hside, asRead_of_no_lead d c hb]

theorem run_joinRecord (d : Dialect) : ∀ (cells : List Cell) (s : St), Fresh s → cells ≠ [] →
    ¬ (s.ps = .startRecord ∧ cells = [[]]) →
    run d s (joinRecord cells ++ ['\n']) = ⟨(s.row.reverse ++ cells) :: s.recs, [], [], .startRecord⟩ := by
  intro cells
  induction cells with
  | nil => intro s _ h; exact absurd rfl h
  | cons c cs ih =>
    intro s hf _ hside
    cases cs with
    | nil =>
      have hside' : c ≠ [] ∨ s.ps = .startField := by
        by_cases hc : c = []
        · right
          rcases hf.2 with h | h
          · exact h
          · exact absurd ⟨h, by simp [hc]⟩ hside
        · exact Or.inl hc
      simp only [joinRecord]
      rw [qcell_eol d c s hf hside']
      simp
    | cons c' cs' =>
      have : joinRecord (c :: c' :: cs') ++ ['\n'] = (quoteCell c ++ [',']) ++ (joinRecord (c' :: cs') ++ ['\n']) := by
        simp [joinRecord]
      rw [this, run_append, qcell_comma d c s hf, ih _ ⟨rfl, Or.inl rfl⟩ (by simp) (by simp)]
      simp

theorem run_csvRecord (d : Dialect) (cells : List Cell) (recs : List (List Cell)) :
    run d ⟨recs, [], [], .startRecord⟩ (csvRecord cells) = ⟨cells :: recs, [], [], .startRecord⟩ := by
  by_cases h1 : cells = [[]]
  · subst h1
    simp [csvRecord, run_cons, run_nil, step, stepStartRecord, stepStartField, isEol, endRecord, eolNext]
  · by_cases h0 : cells = []
    · subst h0
      simp [csvRecord, joinRecord, run_cons, run_nil, step, stepStartRecord, isEol, eolNext]
    · simp only [csvRecord, h1, if_false]
      rw [run_joinRecord d cells _ ⟨rfl, Or.inr rfl⟩ h0 (by simp [h1])]
      simp

theorem run_records (d : Dialect) : ∀ (rows : List (List Cell)) (recs : List (List Cell)),
    run d ⟨recs, [], [], .startRecord⟩ (rows.flatMap csvRecord) = ⟨rows.reverse ++ recs, [], [], .startRecord⟩ := by
  intro rows
  induction rows with
  | nil => intro recs; simp [run_nil]
  | cons r rs ih =>
    intro recs
    rw [List.flatMap_cons, run_append, run_csvRecord d r recs, ih]
    simp

/-- **The reader inverts ExeTera's record writer**, whatever the cells hold and whichever of the four dialects reads. -/
theorem parse_records (d : Dialect) (rows : List (List Cell)) : parse d (rows.flatMap csvRecord) = rows := by
  simp only [parse, St.init]
  rw [run_records d rows []]
  simp [finish]

theorem flatMap_congr_mem {α β} (g h : α → List β) : ∀ (l : List α), (∀ x ∈ l, g x = h x) → l.flatMap g = l.flatMap h := by
  intro l
  induction l with
  | nil => intro _; rfl
  | cons x xs ih =>
    intro hh
    rw [List.flatMap_cons, List.flatMap_cons, hh x (by simp), ih (fun z hz => hh z (by simp [hz]))]

/-- a cell that neither starts with a blank nor holds a carriage return is written exactly as `csv.writer` writes it -/
theorem quoteCell_eq_renderCell (c : Cell) (h : c.head? ≠ some ' ' ∧ '\r' ∉ c) : quoteCell c = renderCell c := by
  have hb : (c.head? == some ' ') = false := by simpa using h.1
  have hc : c.contains '\r' = false := by simpa using h.2
  simp only [quoteCell, renderCell, needsQuotes, hb, hc, any_special_eq, Bool.false_or, Bool.or_false]

theorem joinRecord_eq_joinCells : ∀ (cells : List Cell), (∀ c ∈ cells, c.head? ≠ some ' ' ∧ '\r' ∉ c) →
    joinRecord cells = joinCells cells := by
  intro cells
  induction cells with
  | nil => intro _; rfl
  | cons c cs ih =>
    intro h
    cases cs with
    | nil => simp only [joinRecord, joinCells]; exact quoteCell_eq_renderCell c (h c (by simp))
    | cons c' cs' =>
      simp only [joinRecord, joinCells] at ih ⊢
      rw [quoteCell_eq_renderCell c (h c (by simp)), ih (fun x hx => h x (by simp [hx]))]

/-- **every other byte is what `csv.writer` writes**: a row without a blank-led cell and without a carriage return gives the
    same line under `_csv_record` and under `csv.writer` -/
theorem csvRecord_eq_renderRow (cells : List Cell) (h : ∀ c ∈ cells, c.head? ≠ some ' ' ∧ '\r' ∉ c) :
    csvRecord cells = renderRow cells := by
  simp only [csvRecord, renderRow, joinRecord_eq_joinCells cells h]

example := csvRecord_eq_renderRow [['a', ' '], ['p', ',', '"'], [], ['l', '\n']] (by decide)

example : parse .exetera ([[[' ', 'a'], ['i', '\r', 'j']], [[]], [[' '], ['\r', '\n']]].flatMap csvRecord)
    = [[[' ', 'a'], ['i', '\r', 'j']], [[]], [[' '], ['\r', '\n']]] := parse_records _ _

end Exetera.Export
