/-! The relational join of two key columns, as row-number pairs — the specification of C03. -/
namespace Exetera.Spec

/-- rows `j` of `r` (numbered from `base`) whose key equals `k`, in order -/
def matchRows (k : Int) : List Int → Nat → List Nat
  | [], _ => []
  | b :: bs, base => if b == k then base :: matchRows k bs (base + 1) else matchRows k bs (base + 1)

/-- the output rows of one left row: one per matching right row, or a single unmatched row -/
def leftRow (base : Nat) : List Nat → List (Nat × Option Nat)
  | [] => [(base, none)]
  | ms => ms.map (fun j => (base, some j))

/-- left join of `l` (rows numbered from `base`) with `r`: every left row in order, paired with each equal-keyed
    right row in order, or once with `none` -/
def leftJoinFrom (r : List Int) : List Int → Nat → List (Nat × Option Nat)
  | [], _ => []
  | a :: as, base =>
    leftRow base (matchRows a r 0) ++ leftJoinFrom r as (base + 1)

def leftJoin (l r : List Int) : List (Nat × Option Nat) := leftJoinFrom r l 0

/-- inner join: exactly the equal-keyed pairs in (left, right) order -/
def innerJoinFrom (r : List Int) : List Int → Nat → List (Nat × Nat)
  | [], _ => []
  | a :: as, base => (matchRows a r 0).map (fun j => (base, j)) ++ innerJoinFrom r as (base + 1)

def innerJoin (l r : List Int) : List (Nat × Nat) := innerJoinFrom r l 0

/-- left map column -/
def encL (rows : List (Nat × Option Nat)) : List Int := rows.map (fun p => (p.1 : Int))

/-- right map column, unmatched rows encoded by the caller's marker `inv` -/
def encCell (inv : Int) : Option Nat → Int
  | some j => (j : Int)
  | none => inv

def encR (inv : Int) (rows : List (Nat × Option Nat)) : List Int := rows.map (fun p => encCell inv p.2)

/-- the two map columns of a left join, unmatched right entries encoded by `inv` -/
def encodeLeft (inv : Int) (rows : List (Nat × Option Nat)) : List Int × List Int := (encL rows, encR inv rows)

def encodeInner (rows : List (Nat × Nat)) : List Int × List Int :=
  (rows.map (fun p => (p.1 : Int)), rows.map (fun p => (p.2 : Int)))

end Exetera.Spec
